"""Property-level oracle for C18 (independent of the Lean model): what a built system must look
like, straight from the property text. Returns None when the implementation's observation is what
the property demands (or the property has no opinion), else a dict describing the failure."""
from fractions import Fraction

SOLVERS = ("manual", "lapack")


def fail(line, what, expected, observed):
    return {"line": line[:300], "property_demands": what, "expected": str(expected)[:600], "observed": str(observed)[:600]}


def naming(kind, f, t, ids):
    f_, t_ = f.replace("~", " "), t.replace("~", " ")
    if kind == "arrow":
        return f"{f_} => {t_}".replace(" ", "~")
    if kind == "nospaces":
        return f"{f_.replace(' ', '_')}_to_{t_.replace(' ', '_')}"
    return f"F{ids[f]}_{ids[t]}"


def canon_vals(vs):
    return " ".join(str(Fraction(v)) for v in vs)


def check_case(lines, obs):
    dims = {}
    b = None
    for ln, ob in zip(lines, obs):
        t = ln.split(" ")
        op = t[0]
        if op == "dim":
            dims[t[1]] = t[2]
        elif op == "b_begin":
            b = {"dims": [], "procs": [], "flows": [], "stocks": [], "params": [], "naming": "arrow", "defletters": None}
        elif op == "b_dims":
            b["dims"] = [dims[h] for h in t[1:]]
        elif op == "b_defletters":
            b["defletters"] = t[1:]
        elif op == "b_procs":
            b["procs"] = t[1:]
        elif op == "b_naming":
            b["naming"] = t[1]
        elif op == "b_flow":
            b["flows"].append(t[1:])
        elif op == "b_stock":
            b["stocks"].append(t[1:])
        elif op == "b_param":
            b["params"].append((t[1], t[2], t[3:]))
        elif op == "b_processes":
            procs = b["procs"]
            if len(set(procs)) != len(procs):
                continue
            if procs and procs[0] != "sysenv":
                if ob != "err":
                    return fail(ln, "a process list whose first entry is not the system environment is refused", "err", ob)
                continue
            want = "ok " + ",".join(f"{p}:{i}" for i, p in enumerate(procs))
            if ob != want:
                return fail(ln, "processes are numbered in the listed order, sysenv first", want, ob)
        elif op == "b_build":
            letters = [d.split(":")[1] for d in b["dims"]]
            by_letter = {d.split(":")[1]: d for d in b["dims"]}
            defined = set(b["defletters"]) & set(letters) if b["defletters"] is not None else set(letters)
            procs = b["procs"]
            if len(set(procs)) != len(procs):
                continue
            names = []
            reasons = []
            if not procs or procs[0] != "sysenv":
                reasons.append("the first process is not sysenv")
            for f, to, ls, ov in b["flows"]:
                L = [] if ls == "-" else ls.split(",")
                if any(l not in defined for l in L):
                    reasons.append(f"flow {f}>{to} uses an undefined dimension")
                if f not in procs or to not in procs:
                    reasons.append(f"flow {f}>{to} names an undefined process")
            for name, proc, ls, tl, cls, lm, solver in b["stocks"]:
                tl = "t" if tl == "-" else tl          # the documented default of StockDefinition.time_letter
                L = [] if ls == "-" else ls.split(",")
                if any(l not in defined for l in L):
                    reasons.append(f"stock {name} uses an undefined dimension")
                if proc != "-" and proc not in procs:
                    reasons.append(f"stock {name} names an undefined process")
                cls = {"sdsmsub": "sdsm", "idsmsub": "idsm"}.get(cls, cls)
                if cls != "fds" and lm == "none":
                    reasons.append(f"stock {name} omits the lifetime model its class requires")
                if cls == "fds" and lm != "none":
                    reasons.append(f"stock {name} supplies a lifetime model its class does not use")
                if not L or L[0] != tl:
                    reasons.append(f"stock {name} does not have time first")
                if solver not in SOLVERS:
                    reasons.append(f"stock {name} asks for an unknown solver")
            for name, ls, vals in b["params"]:
                L = [] if ls == "-" else ls.split(",")
                if any(l not in defined for l in L):
                    reasons.append(f"parameter {name} uses an undefined dimension")
            if reasons:
                if ob != "err":
                    return fail(ln, "the definition is refused: " + "; ".join(reasons), "err", ob)
                continue
            ids = {p: i for i, p in enumerate(procs)}
            fl = []
            for f, to, ls, ov in b["flows"]:
                nm = ("" if ov == "<empty>" else ov) if ov != "-" else naming(b["naming"], f, to, ids)
                L = [] if ls == "-" else ls.split(",")
                fl.append((nm, f"{nm}:{f}>{to}:[{' '.join(by_letter[l] for l in L)}]:zero"))
            st = []
            for name, proc, ls, tl, cls, lm, solver in b["stocks"]:
                tl = "t" if tl == "-" else tl
                L = ls.split(",")
                cls = {"sdsmsub": "sdsm", "idsmsub": "idsm"}.get(cls, cls)
                st.append((name, f"{name}:{cls}:{lm}:{solver if cls == 'sdsm' else 'none'}:{tl}:{proc if proc != '-' else 'none'}:"
                                 f"[{' '.join(by_letter[l] for l in L)}]"))
            pr = []
            for name, ls, vals in b["params"]:
                L = [] if ls == "-" else ls.split(",")
                pr.append((name, f"{name}:[{' '.join(by_letter[l] for l in L)}]:{canon_vals(vals)}"))
            # compare section by section; a section whose names collide is outside the property
            got_secs = {}
            if ob.startswith("ok "):
                body = ob[3:]
                for key, nxt_ in (("P", " | F "), ("F", " | S "), ("S", " | R "), ("R", " | D "), ("D", None)):
                    if not body.startswith(key + " ") and body != key:
                        got_secs = None
                        break
                    body = body[len(key) + 1:] if body.startswith(key + " ") else ""
                    if nxt_ is None:
                        got_secs[key] = body
                    else:
                        i = body.find(nxt_)
                        if i < 0:
                            got_secs = None
                            break
                        got_secs[key] = body[:i]
                        body = body[i + 3:]
            if got_secs is None or not ob.startswith("ok "):
                return fail(ln, "the definition is valid: the system is built", "ok P … | F … | S … | R …", ob[:300])
            want_secs = {"P": ",".join(f"{p}:{i}" for i, p in enumerate(procs)),
                         "F": " ; ".join(x[1] for x in fl), "S": " ; ".join(x[1] for x in st), "R": " ; ".join(x[1] for x in pr)}
            canon = []
            for p_ in [x for x in got_secs["R"].split(" ; ") if x]:
                if ":[" in p_ and "]:" in p_:
                    i, j = p_.index(":["), p_.rindex("]:")
                    canon.append(f"{p_[:i]}:{p_[i + 1:j + 1]}:{canon_vals(p_[j + 2:].split())}")
                else:
                    canon.append(p_)
            got_secs["R"] = " ; ".join(canon)
            want_secs["D"] = ",".join(letters)
            groups = {"P": [(p,) for p in procs], "F": fl, "S": st, "R": pr, "D": [(l,) for l in letters]}
            what = {"P": "processes numbered in the listed order", "F": "one zero-valued flow per flow definition, from the named source to the named target, under the generated or overriding name, over the listed dimensions",
                    "S": "one stock per stock definition of the requested class, lifetime model, solver, time letter and process",
                    "R": "parameters under their names, over the listed dimensions",
                    "D": "the system's dimension set holds every defined dimension, used or not, in the defined order"}
            for key in ("P", "F", "S", "R", "D"):
                g = groups[key]
                if len({x[0] for x in g}) != len(g):
                    continue
                if got_secs[key] != want_secs[key]:
                    return fail(ln, what[key], want_secs[key], got_secs[key])
        elif op == "b_dimfile":
            fmt, name, letter, dt, nr, nc = t[1], t[2], t[3], t[4], int(t[5]), int(t[6])
            cells = [c for c in t[7:] if c]
            if fmt == "csv":
                texts = [("s", c[2:]) for c in cells]
            else:
                texts = [(c[0], c[1:]) for c in cells]
            if nr > 1 and nc > 1:
                if ob != "err":
                    return fail(ln, "a dimension file with several rows and several columns is refused", "err", ob)
                continue
            if not texts:
                if ob != "err":
                    return fail(ln, "an empty dimension file is refused", "err", ob)
                continue
            if texts[0][1] == name and texts[0][0] == "s":
                texts = texts[1:]
            if any(k == "f" for k, _ in texts):
                continue                      # non-integer numbers: no opinion
            items = []
            bad = False
            for k, s in texts:
                if dt == "i":
                    try:
                        items.append("i" + str(int(s)))
                    except ValueError:
                        bad = True
                else:
                    items.append("s" + s)
            if bad:
                if ob != "err":
                    return fail(ln, "items that cannot be converted to the declared type are refused", "err", ob)
                continue
            if len(set(items)) != len(items):
                continue                      # repeated items: the property has no opinion
            if fmt == "csv" and dt == "s" and any(s != s.strip() or (s.lstrip("-").isdigit() and str(int(s)) != s) for _, s in texts):
                continue                      # texts pandas re-types on reading (leading zeros): no opinion
            want = f"ok D:{letter}:{name}:{dt}:{','.join(items)}"
            if ob != want:
                return fail(ln, "the items of the file in file order, converted to the declared type", want, ob)
    return None


CLSNAME = {"fds": "SimpleFlowDrivenStock", "idsm": "InflowDrivenDSM", "sdsm": "StockDrivenDSM"}


def check_defs(lines, obs):
    """MFADefinition.to_dfs: one table per non-empty kind of definition, one row per definition
    holding its field values"""
    dims = {}
    b = None
    for ln, ob in zip(lines, obs):
        t = ln.split(" ")
        op = t[0]
        if op == "dim":
            dims[t[1]] = t[2]
        elif op == "b_begin":
            b = {"dims": [], "procs": [], "flows": [], "stocks": [], "params": []}
        elif op == "b_dims":
            b["dims"] = [dims[h] for h in t[1:]]
        elif op == "b_procs":
            b["procs"] = t[1:]
        elif op == "b_flow":
            b["flows"].append(t[1:])
        elif op == "b_stock":
            b["stocks"].append(t[1:])
        elif op == "b_param":
            b["params"].append((t[1], t[2]))
        elif op == "b_todfs":
            letters = [d.split(":")[1] for d in b["dims"]]

            def ls_ok(ls):
                L = [] if ls == "-" else ls.split(",")
                return all(len(l) == 1 and l in letters for l in L)

            def show(ls):
                return "()" if ls == "-" else "+".join(ls.split(","))
            bad = (any(not ls_ok(f[2]) for f in b["flows"]) or any(not ls_ok(p[1]) for p in b["params"])
                   or any(not ls_ok(s[2]) or (s[4] != "fds") != (s[5] != "none") or s[6] not in SOLVERS for s in b["stocks"]))
            if bad:
                if ob != "err":
                    return fail(ln, "a definition with undefined letters, a missing or unused lifetime model or an unknown solver is refused", "err", ob)
                continue
            tables = []
            if b["dims"]:
                rows = []
                for d in b["dims"]:
                    _, l, name, ty, _ = d.split(":")
                    rows.append(f"{name},{l},{'int' if ty == 'i' else 'str'}")
                tables.append("dimensions: name,letter,dtype | " + " ; ".join(rows))
            if b["procs"]:
                tables.append("processes: name | " + " ; ".join(b["procs"]))
            if b["flows"]:
                tables.append("flows: dim_letters,from_process_name,to_process_name,name_override | "
                              + " ; ".join(f"{show(f[2])},{f[0]},{f[1]},{'None' if f[3] == '-' else ('' if f[3] == '<empty>' else f[3])}" for f in b["flows"]))
            if b["stocks"]:
                tables.append("stocks: dim_letters,name,process_name,time_letter,subclass,lifetime_model_class,solver | "
                              + " ; ".join(f"{show(s[2])},{s[0]},{'None' if s[1] == '-' else s[1]},{'t' if s[3] == '-' else s[3]},{CLSNAME[s[4]]},"
                                           f"{'None' if s[5] == 'none' else s[5]},{s[6]}" for s in b["stocks"]))
            if b["params"]:
                tables.append("parameters: dim_letters,name | " + " ; ".join(f"{show(p[1])},{p[0]}" for p in b["params"]))
            want = "ok " + " || ".join(tables)
            if ob != want:
                return fail(ln, "one table per non-empty kind of definition, one row per definition with its field values", want, ob)
    return None
