#!/usr/bin/env python3
"""(Re)writes MANIFEST.json from the list of properties with a registered check."""
import json, os, sys
HERE = os.path.dirname(os.path.abspath(__file__))
sys.path.insert(0, os.path.join(HERE, "harness"))

CLAIMED = {
 "C01": dict(ref="7/C01", technique="Lean 4 theorems (spec of every operator by label, arbitrary dims/orders/values) + translator-regenerated einsum subscripts + differential correspondence (array-ops/arith, exhaustive over ordered subset pairs)",
             text="Machine-checked proof: for every operator the result's dimension list and its entry at every label combination are characterised by theorems over arbitrary dimension lists, storage orders, lengths (incl. 1 and 0-d) and ring/field values; the model's einsum subscripts are regenerated from the source on every run and the hand-written model is compared with the implementation on all ordered-subset pairs of a 3-4 letter universe x 22 operator forms.",
             note="numpy einsum/elementwise semantics modelled (Flodym/Np/ND.lean), validated by correspondence; rounding not modelled; x**y is an uninterpreted elementwise function"),
 "C07": dict(ref="7/C07", technique="Lean 4 theorems (marginal sums, grand total via Fubini/permutation of nested sums, cast/tile mechanism, shares) + translator-regenerated subscripts + differential correspondence (array-ops/reduce, exhaustive over ordered subsets)",
             text="Machine-checked proof: sum_to/sum_over return the marginal sums by label in the requested order for every way of naming dimensions; the grand total is preserved (permutation invariance of nested sums, by induction on List.Perm); cumsum accumulates along the letter's axis; cast_to replicates entries (einsum reorder, newaxis, tile unfolded) and summing back multiplies by the number of added label combinations; shares multiply back and add to one. Unbounded in dimensions, orders, lengths; values in a commutative monoid / semiring / field.",
             note="numpy einsum, newaxis indexing, tile, cumsum modelled and validated by correspondence; rounding not modelled; division theorems guarded by total != 0"),
 "C14": dict(ref="7/C14", technique="Lean 4 theorems on the ordered-list model (set operators, lookups, uniqueness invariant by induction over mutation histories) + differential correspondence (all pairs of ordered sub-lists, queries, random histories with full-store dumps)",
             text="Machine-checked proof: every DimensionSet operator is characterised by the ordered list it returns; lookups agree with the order; distinct letters are an invariant of every constructor/mutator (clashes refused), lifted to arbitrary mutation sequences by induction. The transcription of dimensions.py is compared with the implementation on all pairs of ordered sub-lists of a 4-5 letter alphabet and on random in-place/out-of-place histories with a dump of every live set and array after each step (aliasing shows there).",
             note="pydantic validator behaviour (re-validation of a passed DimensionSet, model_copy being shallow) and Python list semantics are modelled; object identity is covered by correspondence, not by theorems"),
}

def main():
    props = [json.loads(l) for l in open(os.path.join(HERE, "properties.jsonl"))]
    checks, na = [], []
    for p in props:
        pid = p["id"]
        if pid in CLAIMED:
            c = CLAIMED[pid]
            checks.append({
                "property_id": pid,
                "quick_cmd": f"./check {pid} --tier quick",
                "thorough_cmd": f"./check {pid} --tier thorough",
                "evidence_file": f"evidence/{pid}.json",
                "replay_cmd_template": f"./check {pid} --replay {{path}}",
                "engine": "lean-proof+correspondence",
                "level_claimed": {"category": "proof", "text": c["text"], "design_ref": f"DESIGN.md section {c['ref']}"},
                "level_note": c["note"],
                "technique": c["technique"],
            })
        else:
            na.append({"property_id": pid, "reason": "check not built yet in this session (planned, see DESIGN.md section 7); not a claim that proof cannot apply"})
    m = {
        "version": 1,
        "setup_cmd": "python3 translate/gen_lean.py /repo && cd lean && lake build",
        "hooks": {"guard": "FLODYM_VERIF", "enable": "no hooks are needed: every observation is reachable through public attributes", 
                  "baseline_off_cmd": "cd /repo && /venv/bin/python -m pytest -ra -q -p no:cacheprovider --timeout=900 --continue-on-collection-errors",
                  "source_commits": [], "add_only": True},
        "engines": [{"name": "lean-proof+correspondence", "path": "check", "serves_properties": sorted(CLAIMED),
                     "kind_free_text": "Lean 4 theorems about a hand-written executable model (lean/Flodym) + translator-regenerated parts (lean/FlodymGen) + differential correspondence of the compiled model driver against the implementation"}],
        "checks": checks,
        "notes": "Technique family: machine-checked proof in Lean 4. See DESIGN.md. known_findings.json lists fixed and recorded defects.",
        "not_applicable": na,
    }
    json.dump(m, open(os.path.join(HERE, "MANIFEST.json"), "w"), indent=1)
    print(f"MANIFEST.json: {len(checks)} checks, {len(na)} not claimed")

if __name__ == "__main__":
    main()
