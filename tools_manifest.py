#!/usr/bin/env python3
"""(Re)writes MANIFEST.json from the list of properties with a registered check."""
import json, os, sys
HERE = os.path.dirname(os.path.abspath(__file__))
sys.path.insert(0, os.path.join(HERE, "harness"))

CLAIMED = {
 "C01": dict(ref="7/C01", technique="Lean 4 theorems (spec of every operator by label, arbitrary dims/orders/values) + translator-regenerated einsum subscripts + differential correspondence (array-ops/arith, exhaustive over ordered subset pairs)",
             text="Machine-checked proof: for every operator the result's dimension list and its entry at every label combination are characterised by theorems over arbitrary dimension lists, storage orders, lengths (incl. 1 and 0-d) and ring/field values; the model's einsum subscripts are regenerated from the source on every run and the hand-written model is compared with the implementation on all ordered-subset pairs of a 3-4 letter universe x 22 operator forms.",
             note="numpy einsum/elementwise semantics modelled (Flodym/Np/ND.lean), validated by correspondence; rounding not modelled; x**y is an uninterpreted elementwise function"),
 "C07": dict(ref="7/C07", technique="Lean 4 theorems (marginal sums, grand total via Fubini/permutation of nested sums, cast/tile mechanism, shares) + translator-regenerated subscripts + differential correspondence (array-ops/reduce, exhaustive over ordered subsets)",
             text="Machine-checked proof: sum_to/sum_over return the marginal sums by label in the requested order for every way of naming dimensions; the grand total is preserved (permutation invariance of nested sums, by induction on List.Perm); cumsum accumulates along the letter's axis; cast_to replicates entries (einsum reorder, newaxis, tile unfolded) and summing back multiplies by the number of added label combinations; shares multiply back and add to one. Unbounded in dimensions, orders, lengths; values in a commutative monoid / semiring / field.",
             note="numpy einsum, newaxis indexing, tile, cumsum modelled and validated by correspondence; rounding not modelled; division theorems guarded by total != 0"),
 "C14": dict(ref="7/C14", technique="Lean 4 theorems on the ordered-list model (set operators, lookups, uniqueness invariant by induction over mutation histories) + differential correspondence (all pairs of ordered sub-lists, queries, random histories with full-store dumps)",
             text="Machine-checked proof: every DimensionSet operator is characterised by the ordered list it returns; lookups agree with the order; distinct letters are an invariant of every constructor/mutator (clashes refused), lifted to arbitrary mutation sequences by induction. The transcription of dimensions.py is compared with the implementation on all pairs of ordered sub-lists of a 4-5 letter alphabet and on random in-place/out-of-place histories with a dump of every live set and array after each step (aliasing shows there).",
             note="pydantic validator behaviour (re-validation of a passed DimensionSet, model_copy being shallow) and Python list semantics are modelled; object identity is covered by correspondence, not by theorems"),
 "C06": dict(ref="7/C06", technique="Lean 4 theorems (handler mechanism -> numpy index tuple -> model of numpy's advanced-index placement rule, unfolded for every selector-kind combination by induction over the dimension list) + np-semantics correspondence against numpy itself + index correspondence (exhaustive selector-kind combinations, equal lengths)",
             text="Machine-checked proof: for a dict key in any order, keyed by letter or name, decoding to per-dimension selectors (keep / single item / subset Dimension), the read returns the original dims with single selections dropped and subset selections replaced, and each entry is the source entry at the addressed labels; a number write changes exactly the addressed entries; single-item/tuple keys reduce to dict keys; unknown, ambiguous, slice and non-subset keys are refused; items_where/split report true labels. The proofs unfold _init_dims_out/_init_ids/_convert_lists_to_meshgrid and the modelled numpy placement rule (adjacent vs separated advanced indices) for arbitrary numbers of dimensions.",
             note="numpy indexing (basic, list, np.ix_ meshes, placement of broadcast axes, assignment broadcasting) is modelled in lean/Flodym/Np/Index.lean and validated against numpy by the np-semantics stream; list selectors on writes are covered by correspondence only"),
 "C05": dict(ref="7/C05", technique="Lean 4 theorems (setitem spec for array / number / whole-ndarray right-hand sides, injectivity of the label-to-entry map, last-writer-wins by induction over assignment histories) + index correspondence; counterexample theorem for recorded finding D10",
             text="Machine-checked proof: assignment never changes dims or shape; an array right-hand side reaches exactly the addressed entries, summed over the dimensions the region lacks and matched by label, and is refused when it lacks a region dimension; a number fills the region; whole-array ndarray assignment is accepted iff the shape is equal and stored as given; for any sequence of assignments every entry holds the value of the last assignment addressing it. List selectors with an array right-hand side are the recorded finding D10 (counterexample theorem + replayed witness).",
             note="numpy assignment/broadcast semantics modelled; 'the assigned ndarray is copied' is an object-identity fact covered by the history correspondence (C15), not by these theorems"),
 "C04": dict(ref="7/C04", technique="Lean 4 theorems (congruence of every operation under permutation of storage order, via permutation invariance of nested sums proved by induction on List.Perm) + correspondence streams exhaustive over all storage orders of every operand",
             text="Machine-checked proof: label-equal (permuted and transposed) operands give label-equal results for add/sub/min/max, mul, div, sum_to, cast_to, cumsum and dict-key reads, and the result's own order follows the documented rule (left operand / requested / target). The correspondence streams enumerate every storage order of every operand (ordered subsets) with equal-length dimensions, so a silent transposition in the implementation is a disagreement.",
             note="DataFrame export/import, stacking/splitting and the lifetime-parameter cast are tied by their own properties' streams (C11, C08); slice assignment order-independence is covered by the index correspondence and C05's label-level spec"),
 "C03": dict(ref="7/C03", technique="Lean 4 theorems over an arbitrary field (telescoping balance for all three stock classes on any time grid, forward substitution solves the triangular system, check_stock_balance decision logic) + translator-regenerated einsum literals and thresholds + dsm correspondence with scipy's values fed to the model",
             text="Machine-checked proof: bounds sit at midpoints with mirrored ends and all interval lengths are positive for increasing items; for the flow-driven, inflow-driven and stock-driven (manual solver; LAPACK by its specification) models, stock(t)-stock(t-1) = dt(t)*(inflow(t)-outflow(t)) at every step and label for every lower-triangular survival table, every grid and all driver values (also negative inflow); the balance array vanishes on computed stocks, check_stock_balance accepts them and rejects any array with a balance entry beyond the threshold. Unbounded in the number of time steps and labels.",
             note="IEEE rounding not modelled (exact identities over fields); scipy/LAPACK modelled by specification; the einsum ellipsis acts per label column (modelled); thresholds and subscripts regenerated from the source"),
 "C08": dict(ref="7/C08", technique="Lean 4: kernel-decided facts about the regenerated Gauss-Lobatto tables (all 10 rules: order, symmetry, weight sums, polynomial exactness up to degree 2n-3 and not beyond), order-field theorems about the survival/outflow tables, real-analysis theorems about the regenerated scipy arguments (log-normal mean and variance, folded normal, Weibull, normal, fixed) + dsm correspondence",
             text="Machine-checked proof: the survival table is zero above the diagonal, equals the quadrature average of the survival function at the ages bounds(t+1) - (eta*bounds(c+1) + (1-eta)*bounds(c)), lies in [0, sum of weights], never increases with age, and sf + cumulative outflow probability = 1 with non-negative probabilities; the arguments the code hands to scipy reproduce the declared mean / standard deviation (log-normal: exp(mu+s^2/2) = mean and (exp(s^2)-1)exp(2mu+s^2) = std^2, proved over the reals from the regenerated expressions); the ten quadrature tables are checked exhaustively by kernel evaluation on the exact doubles.",
             note="scipy.stats survival functions are a parameter of the model, assumed to be the named distributions (non-increasing, values in [0,1]); the search oracle compares with closed forms via erf/exp; rounding not modelled"),
 "C09": dict(ref="7/C09", technique="Lean 4 theorems (cohort sums, triangularity, cohort formula, telescoping cohort conservation, monotonicity) for both DSM classes + dsm correspondence",
             text="Machine-checked proof: stock and outflow are the cohort sums of the by-cohort tables, both tables vanish for cohorts later than the year, cohort stock = inflow*dt*survival share, it never increases for non-negative inflow, and inflow(c)*dt(c) = stock_by_cohort(t,c) + sum_{s<=t} outflow_by_cohort(s,c)*dt(s); for the inflow-driven and stock-driven model, any grid, any number of steps and labels.",
             note="as C03"),
 "C10": dict(ref="7/C10", technique="Lean 4 theorems (forward substitution solves and is the unique solution of the triangular system => inverse relation both ways, solver agreement by specification) + dsm correspondence running both solvers",
             text="Machine-checked proof: stockDriven(inflowDriven(i).stock) returns i, the same outflow and cohort tables; inflowDriven(stockDriven(s).inflow) reproduces s (also for stocks implying negative inflow); any solution of the triangular system (what LAPACK trtrs is specified to return) equals the manual solver's result. Hypothesis: sf(t,t) != 0 for every cohort.",
             note="LAPACK modelled by its specification; conditioning/rounding for small sf(t,t) not modelled (generators keep sf(t,t) >= 0.05 as the property states)"),
 "C16": dict(ref="7/C16", technique="Lean 4 theorems (causality by triangularity / strong induction, linearity via uniqueness of the triangular solve, per-label independence, calendar-shift invariance of bounds/dt/ages, impulse response) + dsm correspondence incl. unit impulses",
             text="Machine-checked proof: results at step t depend only on driver values at steps <= t; the maps driver -> stock/outflow/cohort tables are linear; the results at a label position equal those of the one-label model on that column; shifting all time items by a constant changes neither interval lengths nor ages; the response to a unit inflow in one cohort is that cohort's survival column times its interval length and leaves other labels untouched.",
             note="as C03"),
 "C17": dict(ref="7/C17", technique="Lean 4 invariant proof over arbitrary operation histories (cache is absent or belongs to the current parameters), with the cache-reset behaviour of set_prms regenerated from the source by the translator + dsm-history correspondence (fresh object next to every compute)",
             text="Machine-checked proof: for the state machine {set_prms, set driver, read sf, read pdf, compute} transcribed from lifetime_models.py/stocks.py, after any sequence of operations compute() yields exactly the results of a freshly built stock with the current parameters and driver, and a second compute() changes nothing. The proof needs that set_prms discards both cached tables; that fact is re-extracted from the AST on every run (theorem source_resets_caches), and a counterexample theorem shows the stale result otherwise (defect D4, fixed).",
             note="abstract over the table-building functions (their correctness is C08/C03); the system-level loop is covered by the correspondence stream, which also builds stocks through StockDefinition/make_empty_stocks"),
 "C13": dict(ref="7/C13", technique="Lean 4: every model operation returns well-formed arrays (constructor validation unfolded), failed calls return the store unchanged, invariant lifted to all operation histories by induction; validators' comparisons regenerated from the AST + history correspondence with ill-formed calls and full-store dumps after every step",
             text="Machine-checked proof: the constructor accepts exactly distinct letters with values of the dimensions' shape and stores them as given; set_values / whole-array assignment reject any other shape; every operator, reduction, cast, slice read and assignment of the model yields arrays whose shape equals the lengths of their dims (assignment keeps dims and shape); a call that raises leaves the store unchanged; hence the invariant holds in every store reachable by any sequence of successful and failed calls (induction over histories). Stocks accept only arrays and lifetime models over exactly their own dimension set with time first, lifetime models require time first (flags re-extracted from the source on every run).",
             note="the model's operations are tied to the code by the history/array-ops/index correspondences; apply() with shape-changing functions and direct attribute overwrites are excluded as in the property"),
 "C15": dict(ref="7/C15", technique="Lean 4: value-level theorem (operations addressed to one handle never change another, over whole histories) + buffer-level model (fresh allocation => no sharing, write isolation, invariant over allocation histories) + history/index correspondences with write-through probes on every returned array and full-store dumps",
             text="Machine-checked proof: in the store model an operation that is not in-place leaves every other array unchanged and an in-place assignment changes only its target (lifted to histories); in the buffer model results allocated freshly never share a buffer with any existing handle, so writes through a result or a source are mutually invisible (no-sharing invariant by induction). The driver allocates exactly this way; where numpy itself returns a view (sum_to/sum_over without summation) the model mirrors the view. The correspondence writes into every returned array and into assigned ndarrays and compares the dump of the whole store.",
             note="object identity in the implementation is observable only through probes (correspondence), not through theorems; to_df/from_df/system-building/export inputs-untouched are covered by their own streams (C11, C18, C19)"),
}

def main():
    props = [json.loads(l) for l in open(os.path.join(HERE, "properties.jsonl"))]
    checks, na = [], []
    for p in props:
        pid = p["id"]
        if pid in CLAIMED:
            c = CLAIMED[pid]
            checks.append({
                "property_id": pid,
                "quick_cmd": f"./check {pid} --tier quick",
                "thorough_cmd": f"./check {pid} --tier thorough",
                "evidence_file": f"evidence/{pid}.json",
                "replay_cmd_template": f"./check {pid} --replay {{path}}",
                "engine": "lean-proof+correspondence",
                "level_claimed": {"category": "proof", "text": c["text"], "design_ref": f"DESIGN.md section {c['ref']}"},
                "level_note": c["note"],
                "technique": c["technique"],
            })
        else:
            na.append({"property_id": pid, "reason": "check not built yet in this session (planned, see DESIGN.md section 7); not a claim that proof cannot apply"})
    m = {
        "version": 1,
        "setup_cmd": "python3 translate/gen_lean.py /repo && cd lean && lake build",
        "hooks": {"guard": "FLODYM_VERIF", "enable": "no hooks are needed: every observation is reachable through public attributes", 
                  "baseline_off_cmd": "cd /repo && /venv/bin/python -m pytest -ra -q -p no:cacheprovider --timeout=900 --continue-on-collection-errors",
                  "source_commits": [], "add_only": True},
        "engines": [{"name": "lean-proof+correspondence", "path": "check", "serves_properties": sorted(CLAIMED),
                     "kind_free_text": "Lean 4 theorems about a hand-written executable model (lean/Flodym) + translator-regenerated parts (lean/FlodymGen) + differential correspondence of the compiled model driver against the implementation"}],
        "checks": checks,
        "notes": "Technique family: machine-checked proof in Lean 4. See DESIGN.md. known_findings.json lists fixed and recorded defects.",
        "not_applicable": na,
    }
    json.dump(m, open(os.path.join(HERE, "MANIFEST.json"), "w"), indent=1)
    print(f"MANIFEST.json: {len(checks)} checks, {len(na)} not claimed")

if __name__ == "__main__":
    main()
