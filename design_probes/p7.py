import numpy as np, pandas as pd, io, itertools, random
from flodym import *
import logging; logging.disable(logging.CRITICAL)
random.seed(1)
def mkdims(kinds):
    pool = {
      "ti": Dimension(name="time", letter="t", items=[1990,2000,2010], dtype=int),
      "rs": Dimension(name="region", letter="r", items=["EU","US"], dtype=str),
      "gu": Dimension(name="good", letter="g", items=["car","bus","bike"]),           # untyped str
      "yu": Dimension(name="year2", letter="y", items=[5,6]),                        # untyped int
      "s1": Dimension(name="single", letter="s", items=["only"], dtype=str),
      "ei": Dimension(name="elem", letter="e", items=[7,8,9,10], dtype=int),
    }
    return DimensionSet(dim_list=[pool[k] for k in kinds])
fails = {}
n=0
for kinds in [("ti",),("rs",),("gu",),("yu",),("ti","rs"),("rs","ti"),("ti","gu"),("yu","rs"),("ti","rs","gu"),("gu","s1","ti"),("rs","yu","ei"),("ti","rs","gu","s1"),("ei","gu"),("s1",),("s1","rs")]:
    dims = mkdims(kinds)
    x = FlodymArray(dims=dims, values=np.arange(dims.total_size, dtype=float).reshape(dims.shape)*0.25+100.125)
    for index in (True, False):
        for dtc in [None]+list(dims.names)+list(dims.letters):
            for header in ("name","letter","none"):
              for perm in (False, True):
                for csv in (False, True):
                    n+=1
                    tag=(kinds,index,dtc,header,perm,csv)
                    try:
                        df = x.to_df(index=index, dim_to_columns=dtc)
                    except Exception as e:
                        fails[tag]=("to_df", type(e).__name__, str(e)[:100]); continue
                    try:
                        if perm:
                            df = df.sample(frac=1, random_state=3)
                            if not index:
                                cols=list(df.columns); random.shuffle(cols); df=df[cols]
                        if header=="letter":
                            m={d.name:d.letter for d in dims}
                            if index and (df.index.names != [None]): df.index = df.index.rename([m.get(nm,nm) for nm in df.index.names])
                            df = df.rename(columns=m)
                            if df.columns.name in m: df.columns.name = m[df.columns.name]
                        elif header=="none":
                            if index: df.index = df.index.rename([None]*len(df.index.names))
                            else: df = df.rename(columns={d.name: f"c{i}" for i,d in enumerate(dims)})
                            df.columns.name=None
                        if csv:
                            s = df.to_csv(index=index)
                            df = pd.read_csv(io.StringIO(s))
                        y = FlodymArray.from_df(dims=dims, df=df)
                        if not np.array_equal(y.values, x.values):
                            fails[tag]=("MISMATCH",)
                    except Exception as e:
                        fails[tag]=("from_df", type(e).__name__, str(e)[-160:])
print("tried", n, "fails", len(fails))
import collections
by = collections.Counter((k[0],k[2] is not None and ("wide:"+str(k[2])), k[3], k[1], k[5], v[0]) for k,v in fails.items())
for k,v in sorted(by.items(), key=lambda kv: str(kv[0])): print(v, k)
for k,v in list(fails.items())[:0]: print(k, v)
print("=====")
seen=set()
for k,v in fails.items():
    key=(v[0], v[-1][:60] if len(v)>1 else "")
    if key in seen: continue
    seen.add(key)
    print(k, v)
