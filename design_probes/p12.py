import numpy as np, itertools, random
from flodym import *
from flodym.lifetime_models import *
import scipy.stats, scipy.special
import logging; logging.disable(logging.CRITICAL)
rng = np.random.default_rng(3)
r = Dimension(name="region", letter="r", items=["a","b"], dtype=str)
g = Dimension(name="good", letter="g", items=["x","y","z"], dtype=str)
def closed_sf(kind, age, p):
    age = np.asarray(age, float)
    if kind=="Fixed": return (age < p["mean"]).astype(float)
    if kind=="Normal": return 0.5*scipy.special.erfc((age-p["mean"])/(p["std"]*np.sqrt(2)))
    if kind=="Folded":
        Phi = lambda z: 0.5*scipy.special.erfc(-z/np.sqrt(2))
        return np.where(age<0, 1.0, 1 - (Phi((age-p["mean"])/p["std"]) + Phi((age+p["mean"])/p["std"]) - 1))
    if kind=="LogNormal":
        m, s = p["mean"], p["std"]; sig2 = np.log(1+s*s/(m*m)); mu = np.log(m) - sig2/2
        with np.errstate(divide="ignore", invalid="ignore"):
            return np.where(age<=0, 1.0, 0.5*scipy.special.erfc((np.log(np.where(age>0,age,1))-mu)/np.sqrt(2*sig2)))
    if kind=="Weibull":
        return np.where(age<=0, 1.0, np.exp(-(np.maximum(age,0)/p["weibull_scale"])**p["weibull_shape"]))
classes = {"Fixed":(FixedLifetime,["mean"]), "Normal":(NormalLifetime,["mean","std"]), "Folded":(FoldedNormalLifetime,["mean","std"]),
           "LogNormal":(LogNormalLifetime,["mean","std"]), "Weibull":(WeibullLifetime,["weibull_shape","weibull_scale"])}
from flodym.gauss_lobatto import gl_nodes, gl_weights
worst = {}
for trial in range(300):
    n = rng.integers(3,7)
    items = np.cumsum(rng.integers(1,6,n)) + 2000
    if trial%3==0: items = 2000+np.arange(n)
    tt = Dimension(name="time", letter="t", items=[int(i) for i in items], dtype=int)
    extra = [[],[r],[g,r]][trial%3]
    dims = DimensionSet(dim_list=[tt]+extra)
    kind = list(classes)[trial%5]; cls, names = classes[kind]
    prm_dims_choices = [[], extra[::-1], [tt], [tt]+extra[::-1], extra[:1]]
    pd_ = prm_dims_choices[trial%len(prm_dims_choices)]
    prms = {}; full = {}
    for nm in names:
        if not pd_:
            v = float(rng.uniform(0.7, 6)); prms[nm] = v; full[nm] = np.full(dims.shape, v)
        else:
            ds = DimensionSet(dim_list=pd_); a = FlodymArray(dims=ds, values=rng.uniform(0.7,6,ds.shape)); prms[nm]=a; full[nm]=a.cast_to(dims).values
    npts = int(rng.integers(1,11)); at = ["start","middle","end"][trial%3]
    lm = cls(dims=dims, inflow_at=at, n_pts_per_interval=npts, **prms)
    sf = lm.sf; pdf = lm.pdf
    b = lm._t.bounds
    if npts>1: etas=[(x+1)/2 for x in gl_nodes[npts]]; ws=[w/2 for w in gl_weights[npts]]
    else: etas=[{"start":0,"middle":.5,"end":1}[at]]; ws=[1]
    exp = np.zeros_like(sf)
    for c in range(n):
        for eta,w in zip(etas,ws):
            t0 = eta*b[c+1]+(1-eta)*b[c]
            for tix in range(c,n):
                age = b[tix+1]-t0
                p = {nm: full[nm][c] for nm in names}
                exp[tix,c] += w*closed_sf(kind, age, p)
    err = np.max(np.abs(exp-sf)); worst[kind]=max(worst.get(kind,0),err)
    # structural
    assert np.all(sf[np.triu_indices(n,1)]==0), "upper"
    assert sf.min()>=-1e-12 and sf.max()<=1+1e-12, ("range", sf.min(), sf.max())
    for c in range(n): assert np.all(np.diff(sf[c:,c],axis=0)<=1e-12), "monotone"
    assert pdf.min()>=-1e-12, "pdf neg"
    cum = np.cumsum(pdf,axis=0)
    for c in range(n): assert np.allclose(sf[c:,c]+cum[c:,c],1), "sum1"
print("C08 max |sf - closed form| per kind:", worst)
