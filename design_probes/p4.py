import numpy as np, pandas as pd, io, tempfile, os
from flodym import *
from flodym.data_reader import *
def try_(label, f):
    try:
        r = f()
        print(f"[{label}] OK ->", r)
    except Exception as e:
        print(f"[{label}] RAISES {type(e).__name__}: {str(e)[:300]}")
print(pd.__version__, np.__version__)
# C11 int16 overflow
n = 40000
d = Dimension(name="big", letter="b", items=[f"i{k}" for k in range(n)], dtype=str)
dims = DimensionSet(dim_list=[d])
x = FlodymArray(dims=dims, values=np.arange(n, dtype=float)+0.5)
df = x.to_df()
try:
    y = FlodymArray.from_df(dims=dims, df=df)
    bad = np.nonzero(y.values != x.values)[0]
    print("C11 big dim: mismatches", len(bad), "first", bad[:3], y.values[bad[:3]])
except Exception as e:
    print("C11 big dim raises", type(e).__name__, str(e)[:200])
n = 70000
d = Dimension(name="big", letter="b", items=[f"i{k}" for k in range(n)], dtype=str)
dims = DimensionSet(dim_list=[d])
x = FlodymArray(dims=dims, values=np.arange(n, dtype=float)+0.5)
try:
    y = FlodymArray.from_df(dims=dims, df=x.to_df())
    bad = np.nonzero(y.values != x.values)[0]
    print("C11 70000 dim: mismatches", len(bad), "first", bad[:3], y.values[bad[:3]])
except Exception as e:
    print("C11 big dim raises", type(e).__name__, str(e)[:200])

# C18 Excel
try:
    import openpyxl; print("openpyxl", openpyxl.__version__)
except Exception as e: print("no openpyxl", e)
tmp = tempfile.mkdtemp()
p = os.path.join(tmp, "d.xlsx")
try:
    pd.DataFrame([["a"],["b"]]).to_excel(p, header=False, index=False)
    rd = ExcelDimensionReader({"region": p})
    try_("excel dim no sheet", lambda: rd.read_dimension(DimensionDefinition(name="region", letter="r", dtype=str)).items)
    rd = ExcelDimensionReader({"region": p}, {"region": "Sheet1"})
    try_("excel dim sheet", lambda: rd.read_dimension(DimensionDefinition(name="region", letter="r", dtype=str)).items)
    r = Dimension(name="region", letter="r", items=["a","b"], dtype=str)
    pp = os.path.join(tmp, "p.xlsx")
    pd.DataFrame({"region":["a","b"], "value":[1.,2.]}).to_excel(pp, index=False)
    try_("excel prm no sheet", lambda: ExcelParameterReader({"x": pp}).read_parameter_values("x", DimensionSet(dim_list=[r])).values)
    try_("excel prm sheet", lambda: ExcelParameterReader({"x": pp}, {"x":"Sheet1"}).read_parameter_values("x", DimensionSet(dim_list=[r])).values)
except Exception as e:
    print("excel probe failed", type(e).__name__, e)
# csv dims
pc = os.path.join(tmp, "d.csv"); open(pc,"w").write("region\na\nb\n")
try_("csv dim w header", lambda: CSVDimensionReader({"region": pc}).read_dimension(DimensionDefinition(name="region", letter="r", dtype=str)).items)
open(pc,"w").write("2000,2001,2002\n")
try_("csv dim row int", lambda: CSVDimensionReader({"time": pc}).read_dimension(DimensionDefinition(name="time", letter="t", dtype=int)).items)
open(pc,"w").write("")
try_("csv dim empty", lambda: CSVDimensionReader({"time": pc}).read_dimension(DimensionDefinition(name="time", letter="t", dtype=int)).items)
# processes
try_("sysenv not first", lambda: make_processes(["a","sysenv"]))
try_("dup names", lambda: make_processes(["sysenv","a","a"]))
try_("stockdef time not first", lambda: StockDefinition(name="s", dim_letters=("r","t"), subclass=SimpleFlowDrivenStock))
