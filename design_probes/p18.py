import numpy as np, pandas as pd
from flodym import *
import logging; logging.disable(logging.CRITICAL)
def try_(label, f):
    try:
        r = f(); print(f"[{label}] OK ->", r)
    except Exception as e: print(f"[{label}] RAISES {type(e).__name__}: {str(e)[-220:]}")
t = Dimension(name="scen", letter="s", items=[1,2,3], dtype=int)
r = Dimension(name="region", letter="r", items=["a","b"], dtype=str)
d1 = DimensionSet(dim_list=[t])
x = FlodymArray(dims=d1, values=np.array([2.,3.,1.]))
try_("named 1-d, values are a permutation of the items", lambda: FlodymArray.from_df(dims=d1, df=x.to_df()).values)
d2 = DimensionSet(dim_list=[r,t]); y = FlodymArray(dims=d2, values=np.array([[2.,3.,1.],[1.,2.,3.]]))
try_("named 2-d, value set == items of s", lambda: FlodymArray.from_df(dims=d2, df=y.to_df()).values)
try_("named 2-d, value set == items of s, index=False", lambda: FlodymArray.from_df(dims=d2, df=y.to_df(index=False)).values)
# first-row-as-items trap: dim B items = A.items + [A.name]
A = Dimension(name="xx", letter="a", items=["p","q"], dtype=str); B = Dimension(name="yy", letter="b", items=["p","q","xx"], dtype=str)
d3 = DimensionSet(dim_list=[A,B]); z = FlodymArray(dims=d3, values=np.arange(6.).reshape(2,3)+0.5)
try_("dim B items = A items + A name", lambda: FlodymArray.from_df(dims=d3, df=z.to_df()).values)
