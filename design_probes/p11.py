import numpy as np, pandas as pd, io, itertools, random
from flodym import *
import logging; logging.disable(logging.CRITICAL)
random.seed(5)
t = Dimension(name="time", letter="t", items=[1990,2000,2010], dtype=int)
r = Dimension(name="region", letter="r", items=["EU","US"], dtype=str)
g = Dimension(name="good", letter="g", items=["car","bus"])
s1 = Dimension(name="single", letter="s", items=["only"], dtype=str)
def outcome(dims, df, **fl):
    tgt = FlodymArray(dims=dims, values=np.full(dims.shape, -7.0))
    before = tgt.values.copy()
    try:
        tgt.set_values_from_df(df, **fl)
        return "ok", tgt.values.copy()
    except Exception as e:
        same = tgt.values.shape == before.shape and np.array_equal(tgt.values, before)
        return "err" + ("" if same else "-DIRTY"), type(e).__name__
res = {}
def rec(k, v): res.setdefault(k, []).append(v)
for dl in ([t,r],[t,r,g],[r,s1,t],[t]):
    dims = DimensionSet(dim_list=dl)
    x = FlodymArray(dims=dims, values=np.arange(dims.total_size, dtype=float).reshape(dims.shape)+100.5)
    layouts = [("long", x.to_df(index=False))]
    if len(dl) > 1:
        for d in dl:
            if d.len>1: layouts.append(("wide:"+d.letter, x.to_df(index=False, dim_to_columns=d.name)))
    for lname, df0 in layouts:
        n = len(df0)
        for flags in itertools.product([False,True],[False,True]):
            fl = dict(allow_missing_values=flags[0], allow_extra_values=flags[1])
            for i in range(n):
                # drop row i
                o = outcome(dims, df0.drop(df0.index[i]), **fl)
                exp_ok = flags[0]
                rec(("drop", lname, flags), (o[0], exp_ok))
                if o[0]=="ok":
                    # all present entries placed right, missing zero
                    v = o[1]; bad = np.sum((v != x.values) & (v != 0))
                    if bad: rec(("drop-MISPLACED", lname, flags), i)
                # duplicate row i
                o = outcome(dims, pd.concat([df0, df0.iloc[[i]]]), **fl)
                rec(("dup", lname, flags), (o[0], False))
                # blank a value cell
                df = df0.copy(); col = [c for c in df.columns if c not in dims.names][0]; df.loc[df.index[i], col] = np.nan
                o = outcome(dims, df, **fl); rec(("nan", lname, flags), (o[0], flags[0]))
                # relabel an item in first dim column to unknown
                dimcols = [c for c in df0.columns if c in dims.names]
                if dimcols:
                    df = df0.copy(); c = dimcols[0]
                    df[c] = df[c].astype(object); df.loc[df.index[i], c] = 4242 if dims[c].dtype is int else "ZZ"
                    o = outcome(dims, df, **fl)
                    # unknown item => a missing combination as well
                    rec(("unknown", lname, flags), (o[0], flags[0] and flags[1]))
            # missing column of a multi-item dim
            dimcols = [c for c in df0.columns if c in dims.names and dims[c].len>1]
            for c in dimcols:
                o = outcome(dims, df0.drop(columns=[c]), **fl); rec(("misscol", lname, flags), (o[0], False))
            # extra unmatched value column
            df = df0.copy(); df["junk"] = 1.0
            o = outcome(dims, df, **fl); rec(("2valcols", lname, flags), (o[0], False))
import collections
for k, v in sorted(res.items(), key=str):
    c = collections.Counter(v)
    flag = "" if all((a=="ok")==b for a,b in c if isinstance(b,bool)) else "   <<<<< UNEXPECTED"
    print(k, dict(c), flag)
