# label-level reference for arithmetic / reductions / cast / shares / cumsum, exhaustive over ordered subsets
import numpy as np, itertools
from fractions import Fraction as F
from flodym import *
import logging; logging.disable(logging.CRITICAL)
U = {"a": Dimension(name="aa", letter="a", items=[1,2], dtype=int), "b": Dimension(name="bb", letter="b", items=["x","y"], dtype=str),
     "c": Dimension(name="cc", letter="c", items=["p","q","r"]), "d": Dimension(name="dd", letter="d", items=["only"], dtype=str)}
rng = np.random.default_rng(2)
def ordered_subsets(letters, kmax):
    for k in range(kmax+1):
        for comb in itertools.permutations(letters, k): yield comb
def mk(letters):
    ds = DimensionSet(dim_list=[U[l] for l in letters])
    return FlodymArray(dims=ds, values=rng.integers(1,9,ds.shape).astype(float))
def lab(x):  # dict: frozenset of (letter,item) -> value
    out = {}
    for idx in itertools.product(*[range(d.len) for d in x.dims]):
        out[frozenset((d.letter, d.items[i]) for d,i in zip(x.dims, idx))] = float(x.values[idx]) if x.dims.ndim else float(x.values)
    if x.dims.ndim==0: out = {frozenset(): float(x.values)}
    return out
def margin(L, keep):
    out = {}
    for k,v in L.items():
        kk = frozenset(p for p in k if p[0] in keep); out[kk] = out.get(kk,0)+v
    return out
fails = []
n=0
subs = list(ordered_subsets("abcd", 3))
for lx in subs:
    x = mk(lx); Lx = lab(x)
    for ly in subs:
        y = mk(ly); Ly = lab(y); n+=1
        common = [l for l in lx if l in ly]; union = list(lx)+[l for l in ly if l not in lx]
        for opn, f in (("add", lambda a,b:a+b),("sub",lambda a,b:a-b),("min",min),("max",max)):
            z = {"add": lambda: x+y, "sub": lambda: x-y, "min": lambda: x.minimum(y), "max": lambda: x.maximum(y)}[opn]()
            if list(z.dims.letters)!=common: fails.append((opn,lx,ly,"dims",z.dims.letters)); continue
            mx, my = margin(Lx, common), margin(Ly, common); Lz = lab(z)
            if any(abs(Lz[k]-f(mx[k],my[k]))>1e-9 for k in Lz) or set(Lz)!=set(mx): fails.append((opn,lx,ly,"vals"))
        for opn in ("mul","div"):
            z = x*y if opn=="mul" else x/y
            if list(z.dims.letters)!=union: fails.append((opn,lx,ly,"dims",z.dims.letters)); continue
            Lz = lab(z)
            for k,v in Lz.items():
                kx = frozenset(p for p in k if p[0] in lx); ky = frozenset(p for p in k if p[0] in ly)
                e = Lx[kx]*Ly[ky] if opn=="mul" else Lx[kx]/Ly[ky]
                if abs(v-e)>1e-9: fails.append((opn,lx,ly,"vals")); break
        # pow
        try:
            z = x**y; ok=True
        except Exception: ok=False
        if ok != (set(ly)<=set(lx)): fails.append(("pow",lx,ly,"accept",ok))
        elif ok:
            Lz=lab(z)
            if list(z.dims.letters)!=list(lx) or any(abs(v-Lx[k]**Ly[frozenset(p for p in k if p[0] in ly)])>1e-6 for k,v in Lz.items()): fails.append(("pow",lx,ly,"vals"))
        # setitem whole: x[...] = y
        t = x.copy()
        try: t[...] = y; ok=True
        except Exception: ok=False
        if ok != (set(lx)<=set(ly)): fails.append(("set...",lx,ly,"accept",ok))
        elif ok:
            my = margin(Ly, lx)
            if list(t.dims.letters)!=list(lx) or any(abs(v-my[k])>1e-9 for k,v in lab(t).items()): fails.append(("set...",lx,ly,"vals"))
        # cast
        try: z = x.cast_to(y.dims); ok=True
        except Exception: ok=False
        if ok != (set(lx)<=set(ly)): fails.append(("cast",lx,ly,"accept",ok))
        elif ok:
            if list(z.dims.letters)!=list(ly) or any(abs(v-Lx[frozenset(p for p in k if p[0] in lx)])>1e-9 for k,v in lab(z).items()): fails.append(("cast",lx,ly,"vals"))
    # unary / scalar / reductions
    for opn, z, f in (("neg",-x,lambda v:-v),("abs",abs(-x),abs),("x+2",x+2,lambda v:v+2),("2+x",2+x,lambda v:v+2),("x-2",x-2,lambda v:v-2),("2-x",2-x,lambda v:2-v),
                      ("x*2",x*2,lambda v:2*v),("2*x",2*x,lambda v:2*v),("x/2",x/2,lambda v:v/2),("2/x",2/x,lambda v:2/v),("x**2",x**2,lambda v:v*v),("sign",(-x).sign(),lambda v:-1.0),
                      ("min2",x.minimum(2),lambda v:min(v,2)),("max2",x.maximum(2),lambda v:max(v,2))):
        if list(z.dims.letters)!=list(lx) or any(abs(v-f(Lx[k]))>1e-9 for k,v in lab(z).items()): fails.append((opn,lx))
    for keep in ordered_subsets(lx, 3):
        for form in ("letter","name","obj"):
            arg = tuple({"letter":l,"name":U[l].name,"obj":U[l]}[form] for l in keep)
            z = x.sum_to(arg); m = margin(Lx, keep)
            if list(z.dims.letters)!=list(keep) or any(abs(v-m[k])>1e-9 for k,v in lab(z).items()): fails.append(("sum_to",lx,keep,form))
            over = tuple({"letter":l,"name":U[l].name,"obj":U[l]}[form] for l in lx if l not in keep)
            z = x.sum_over(over); kk=[l for l in lx if l in keep]
            if list(z.dims.letters)!=kk or any(abs(v-m[k])>1e-9 for k,v in lab(z).items()): fails.append(("sum_over",lx,keep,form))
        if keep:
            z = x.get_shares_over(keep); rest=[l for l in lx if l not in keep]; m = margin(Lx, rest)
            if any(abs(v*m[frozenset(p for p in k if p[0] in rest)]-Lx[k])>1e-9 for k,v in lab(z).items()): fails.append(("shares",lx,keep))
    for l in lx:
        z = x.cumsum(l); d = U[l]
        for k,v in lab(z).items():
            it = dict(k)[l]; pos = d.items.index(it)
            e = sum(Lx[frozenset((p if p[0]!=l else (l,d.items[j])) for p in k)] for j in range(pos+1))
            if abs(v-e)>1e-9: fails.append(("cumsum",lx,l)); break
print("pairs", n, "fails", len(fails)); print(fails[:20])
