import numpy as np, pandas as pd, itertools, random, tempfile, os, pickle, shutil
import matplotlib; matplotlib.use("Agg")
from flodym import *
from flodym.export import *
from flodym.export.helper import to_valid_file_name
from flodym.lifetime_models import *
import logging; logging.disable(logging.CRITICAL)
rnd = random.Random(4); rng = np.random.default_rng(4)
class M(MFASystem):
    def compute(self): pass
D = [Dimension(name="time", letter="t", items=[2000,2001,2002], dtype=int), Dimension(name="region", letter="r", items=["a","b"], dtype=str),
     Dimension(name="good", letter="g", items=["x","y","z"], dtype=str), Dimension(name="elem", letter="e", items=["Fe"], dtype=str)]
dims = DimensionSet(dim_list=D)
problems = []
for trial in range(150):
    np_ = rnd.randint(1,4); pnames = ["sysenv"] + rnd.sample(["use phase","waste mgmt","P-3","prod"], np_)
    procs = make_processes(pnames)
    fdefs = []; seen=set()
    for k in range(rnd.randint(1,6)):
        a,b = rnd.choice(pnames), rnd.choice(pnames)
        letters = tuple(rnd.sample("trge", rnd.randint(1,3)))
        name = None
        if (a,b) in seen: name = f"alt {k}: {a}->{b}"
        seen.add((a,b))
        fdefs.append(FlowDefinition(from_process=a, to_process=b, dim_letters=letters, name_override=name))
    sdefs = []
    for k in range(rnd.randint(0,2)):
        letters = ("t",)+tuple(rnd.sample("rge", rnd.randint(0,2)))
        sdefs.append(StockDefinition(name=f"stock {k}", process=rnd.choice([None]+pnames[1:]), dim_letters=letters, subclass=SimpleFlowDrivenStock))
    flows = make_empty_flows(procs, fdefs, dims); stocks = make_empty_stocks(sdefs, procs, dims)
    m = M(dims=dims, parameters={}, processes=procs, flows=flows, stocks=stocks)
    for f in m.flows.values(): f.values[...] = rng.integers(1,20,f.shape)
    for s in m.stocks.values():
        for a in (s.stock,s.inflow,s.outflow): a.values[...] = rng.integers(1,20,a.shape)
    # ---- C18 checks
    if [p.id for p in m.processes.values()] != list(range(len(pnames))) or list(m.processes) != pnames: problems.append(("proc ids", pnames))
    if len(m.flows)!=len(fdefs): problems.append(("flow count", trial))
    for fd,(n,f) in zip(fdefs, m.flows.items()):
        exp = fd.name_override or f"{fd.from_process_name} => {fd.to_process_name}"
        if n!=exp or f.name!=exp or f.from_process.name!=fd.from_process_name or f.to_process.name!=fd.to_process_name or f.dims.letters!=tuple(fd.dim_letters): problems.append(("flow", n))
        if any(f.dims[l].items != dims[l].items for l in fd.dim_letters): problems.append(("flow items", n))
    # ---- C19
    snap = {n: f.values.copy() for n,f in m.flows.items()}
    d = convert_to_dict(m); dp = convert_to_dict(m, "pandas")
    if set(d["flows"])!=set(m.flows) or set(d["stocks"])!=set(m.stocks): problems.append(("dict keys", trial))
    for n,f in m.flows.items():
        if not np.array_equal(d["flows"][n], f.values) or d["flow_dimensions"][n]!=f.dims.letters or d["flow_processes"][n]!=(f.from_process.name,f.to_process.name): problems.append(("dict flow", n))
        if f.dims.ndim>0:
            try:
                back = FlodymArray.from_df(dims=f.dims, df=dp["flows"][n])
                if not np.array_equal(back.values, f.values): problems.append(("pandas roundtrip mismatch", n, f.dims.letters))
            except Exception as e: problems.append(("pandas roundtrip raises", f.dims.letters, type(e).__name__, str(e)[-80:]))
        else:
            try: dp["flows"][n]
            except Exception as e: problems.append(("0-d to_df", str(e)[:50]))
    tmp = tempfile.mkdtemp()
    try:
        export_mfa_flows_to_csv(m, tmp); export_mfa_stocks_to_csv(m, tmp, with_in_and_out=True)
        files = sorted(os.listdir(tmp))
        expn = len({to_valid_file_name(n) for n in m.flows}) + 3*len({to_valid_file_name(n) for n in m.stocks})
        if len(files)!=len(m.flows)+3*len(m.stocks): problems.append(("csv count", len(files), len(m.flows)+3*len(m.stocks), list(m.flows)))
        for n,f in m.flows.items():
            if f.dims.ndim==0: continue
            df = pd.read_csv(os.path.join(tmp, to_valid_file_name(n)+".csv"))
            try:
                back = FlodymArray.from_df(dims=f.dims, df=df)
                if not np.array_equal(back.values, f.values): problems.append(("csv roundtrip mismatch", n))
            except Exception as e: problems.append(("csv roundtrip raises", f.dims.letters, str(e)[-100:]))
        export_mfa_to_pickle(m, os.path.join(tmp,"x.pkl"))
    except Exception as e: problems.append(("export raises", type(e).__name__, str(e)[:100]))
    finally: shutil.rmtree(tmp)
    if any(not np.array_equal(snap[n], f.values) for n,f in m.flows.items()): problems.append(("export mutated", trial))
    # ---- C20 sankey
    excl_p = rnd.sample(pnames, rnd.randint(0,2)); excl_f = rnd.sample(list(m.flows), rnd.randint(0,1))
    sl = {}
    if rnd.random()<0.5: sl["r"] = rnd.choice(["a","b"])
    if rnd.random()<0.3: sl["t"] = 2001
    fcd = {"default":"red"}
    cand = [n for n,f in m.flows.items() if "g" in f.dims.letters]
    if cand and rnd.random()<0.5: fcd[rnd.choice(cand)] = ("good", ["blue","green","orange"])
    try:
        sp = PlotlySankeyPlotter(mfa=m, exclude_processes=excl_p, exclude_flows=excl_f, slice_dict=sl, flow_color_dict=fcd)
        fig = sp.plot(); lk = fig.data[0].link; nodes = list(fig.data[0].node.label)
        shown_p = [p for p in pnames if p not in excl_p]
        if nodes != shown_p: problems.append(("nodes", nodes, shown_p))
        exp_links = []
        for n,f in m.flows.items():
            if n in excl_f or f.from_process.name in excl_p or f.to_process.name in excl_p: continue
            sd = {k:v for k,v in sl.items() if k in f.dims.letters}
            fs = f[sd]
            if isinstance(fcd.get(n), tuple):
                vals = fs.sum_to(("g",)).values
                for it,v in zip(dims["g"].items, vals): exp_links.append((shown_p.index(f.from_process.name), shown_p.index(f.to_process.name), float(v), it))
            else: exp_links.append((shown_p.index(f.from_process.name), shown_p.index(f.to_process.name), float(fs.values.sum()), n))
        got = list(zip(lk.source, lk.target, [float(v) for v in lk.value], lk.label))
        if got != exp_links: problems.append(("links", got, exp_links))
    except Exception as e: problems.append(("sankey raises", type(e).__name__, str(e)[:120], sl, fcd))
print(len(problems)); 
import collections; print(collections.Counter(p[0] for p in problems))
for p in problems[:8]: print(p)
