import numpy as np, pandas as pd
from flodym import *
from flodym.lifetime_models import *
def try_(label, f):
    try:
        r = f()
        print(f"[{label}] OK ->", r)
    except Exception as e:
        print(f"[{label}] RAISES {type(e).__name__}: {str(e)[:300]}")
t = Dimension(name="time", letter="t", items=[1,2,3], dtype=int)
r = Dimension(name="region", letter="r", items=["a","b"], dtype=str)
dims = DimensionSet(dim_list=[t,r])
x = FlodymArray(dims=dims, values=np.arange(6.).reshape(3,2))
y = x[{"t": 2}]; y.values[...] = 99
print("C15 slice read write-through:", x.values.tolist())
x = FlodymArray(dims=dims, values=np.arange(6.).reshape(3,2))
y = x[...]; y.values[...] = 99
print("C15 x[...] write-through:", x.values.tolist())
x = FlodymArray(dims=dims, values=np.arange(6.).reshape(3,2))
rs = Dimension(name="rsub", letter="s", items=["b"], dtype=str)
y = x[{"r": rs}]; y.values[...] = 99
print("C15 subset-dim read write-through:", x.values.tolist())
x = FlodymArray(dims=dims, values=np.arange(6.).reshape(3,2))
y = x.cast_to(dims); y.values[...] = 99; print("cast_to same dims wt:", x.values.tolist())
y = x.sum_to(("t","r")); y.values[...] = 99; print("sum_to all dims wt:", x.values.tolist())
x = FlodymArray(dims=dims, values=np.arange(6.).reshape(3,2))
d = x.split("r"); d["a"].values[...] = 77; print("split wt:", x.values.tolist())
x = FlodymArray(dims=dims, values=np.arange(6.).reshape(3,2))
arr = np.ones((3,2)); x[...] = arr; arr[0,0] = 5; print("ndarray copy on [...]:", x.values[0,0])
arr = np.ones((2,)); x[{"t":1}] = arr; arr[0] = 5; print("ndarray keyed:", x.values[0,0])
arr = np.ones((3,2)); z = FlodymArray(dims=dims, values=arr); arr[0,0]=5; print("constructor shares values:", z.values[0,0])
z = FlodymArray(dims=dims); z.dims.drop("r", inplace=True); print("dims of source set after editing array dims in place:", dims.letters)
# full_like, copy
c = x.copy(); c.values[...] = -1; print("copy indep:", x.values[0,0])
# C10 / C16 quick
def mk(items, cls, lt, prm, extra=None, **kw):
    tt = Dimension(name="time", letter="t", items=items, dtype=int)
    dl = [tt] + ([extra] if extra else [])
    dd = DimensionSet(dim_list=dl)
    return cls(dims=dd, lifetime_model=lt(dims=dd, **prm), **kw), dd
items=[2000,2001,2003,2007,2008,2012]
a, dd = mk(items, InflowDrivenDSM, WeibullLifetime, dict(weibull_shape=2., weibull_scale=4.), extra=r)
a.inflow.values[...] = np.array([[1.,3],[2,5],[1,4],[0,2],[3,1],[2,2]])
a.compute()
for solver in ("manual","lapack"):
    b, _ = mk(items, StockDrivenDSM, WeibullLifetime, dict(weibull_shape=2., weibull_scale=4.), extra=r, solver=solver)
    b.stock.values[...] = a.stock.values
    b.compute()
    print(solver, "inflow err", np.max(np.abs(b.inflow.values-a.inflow.values)), "outflow err", np.max(np.abs(b.outflow.values-a.outflow.values)),
          "cohort err", np.max(np.abs(b.get_stock_by_cohort()-a.get_stock_by_cohort())), np.max(np.abs(b.get_outflow_by_cohort()-a.get_outflow_by_cohort())))
# stock by cohort for StockDriven: uses annual inflow x sf (not x dt)?
print("a.sbc sum == stock:", np.allclose(a.get_stock_by_cohort().sum(axis=1), a.stock.values), " b:", np.allclose(b.get_stock_by_cohort().sum(axis=1), b.stock.values))
