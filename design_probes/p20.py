import numpy as np, itertools, random
import matplotlib; matplotlib.use("Agg")
from matplotlib import pyplot as plt
from flodym import *
from flodym.export import PlotlyArrayPlotter, PyplotArrayPlotter
import logging; logging.disable(logging.CRITICAL)
rng = np.random.default_rng(1); rnd = random.Random(1)
D = {"t": Dimension(name="time", letter="t", items=[2000,2001,2002,2003], dtype=int), "r": Dimension(name="region", letter="r", items=["a","b"], dtype=str),
     "g": Dimension(name="good", letter="g", items=["x","y","z"], dtype=str)}
problems=[]; n=0
for nd in (1,2,3):
    for letters in itertools.permutations("trg", nd):
        dims = DimensionSet(dim_list=[D[l] for l in letters]); arr = FlodymArray(dims=dims, values=rng.integers(1,50,dims.shape).astype(float), name="arr")
        for roles in itertools.permutations(["intra","line","sub"][:nd] if nd<3 else ["intra","line","sub"], nd):
          for alt in ([["intra"],["intra","line"],["intra","sub"]] if nd<3 else [None]):
            if nd<3:
                if len(alt)!=nd: continue
                roles_ = dict(zip(rnd.sample(alt,nd) if False else alt, letters)) if roles==tuple(["intra","line","sub"][:nd]) else dict(zip(alt, letters[::-1]))
            else: roles_ = dict(zip(roles, letters))
            for byname in (False, True):
                for xarr in (None, "same", "sub"):
                    kw = {}
                    for role,l in roles_.items():
                        key = {"intra":"intra_line_dim","line":"linecolor_dim","sub":"subplot_dim"}[role]; kw[key] = D[l].name if byname else l
                    xa = None
                    if xarr=="same": xa = FlodymArray(dims=dims, values=rng.integers(1,50,dims.shape).astype(float), name="xx")
                    elif xarr=="sub":
                        il = roles_["intra"]; xd = DimensionSet(dim_list=[D[il]]); xa = FlodymArray(dims=xd, values=rng.integers(1,50,xd.shape).astype(float), name="xx")
                    for cls in (PlotlyArrayPlotter, PyplotArrayPlotter):
                        n+=1
                        try:
                            fig = cls(array=arr, x_array=xa, **kw).plot()
                            if cls is PlotlyArrayPlotter:
                                got = [(tr.name, [float(v) for v in tr.x], [float(v) for v in tr.y], tr.xaxis, ) for tr in fig.data]
                            else:
                                got = [(i, [float(v) for v in ln.get_xdata()], [float(v) for v in ln.get_ydata()]) for i,ax in enumerate(fig.axes) for ln in ax.lines]
                                plt.close(fig)
                            # expected
                            il = roles_["intra"]; sl = roles_.get("sub"); ll = roles_.get("line")
                            exp=[]
                            for si,sit in enumerate(D[sl].items if sl else [None]):
                                for lit in (D[ll].items if ll else [None]):
                                    key = {}
                                    if sl: key[sl]=sit
                                    if ll: key[ll]=lit
                                    ys = arr[key].values if key else arr.values
                                    if xa is None: xs = D[il].items
                                    else:
                                        xk = {k:v for k,v in key.items() if k in xa.dims.letters}
                                        xs = (xa[xk] if xk else xa).values
                                    exp.append((si, lit, [float(v) for v in xs], [float(v) for v in ys]))
                            if cls is PlotlyArrayPlotter:
                                g2 = [(x,y) for _,x,y,_ in got]; 
                            else: g2 = [(x,y) for _,x,y in got]
                            e2 = [(x,y) for _,_,x,y in exp]
                            if g2 != e2: problems.append((cls.__name__, letters, roles_, byname, xarr, "DATA"))
                            if cls is PyplotArrayPlotter and [g[0] for g in got] != [e[0] for e in exp]: problems.append((cls.__name__, letters, roles_, "AXES"))
                        except Exception as e:
                            problems.append((cls.__name__, letters, roles_, byname, xarr, type(e).__name__, str(e)[:80]))
print(n, len(problems))
import collections; print(collections.Counter((p[0],p[-1] if len(p)<7 else p[-2]) for p in problems))
for p in problems[:6]: print(p)
