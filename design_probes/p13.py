# reference semantics for a[ids] with ids in {int, slice(None), list, ix_-mesh component}, as the Lean model will define it
import numpy as np, itertools, random
random.seed(0)
def bshape(shapes):
    n = max((len(s) for s in shapes), default=0); out=[1]*n
    for s in shapes:
        s=[1]*(n-len(s))+list(s)
        for i,(a,b) in enumerate(zip(out,s)):
            if a==1: out[i]=b
            elif b!=1 and b!=a: raise ValueError
    return out
def model_index(shape, get, ids):
    # classify
    adv = [i for i,x in enumerate(ids) if not isinstance(x, slice)]
    has_array = any(isinstance(ids[i], (list, np.ndarray)) for i in adv)
    if not has_array:
        out_axes=[i for i,x in enumerate(ids) if isinstance(x, slice)]
        oshape=[shape[i] for i in out_axes]
        def g(idx):
            full=[None]*len(shape); it=iter(idx)
            for i,x in enumerate(ids): full[i]= next(it) if isinstance(x,slice) else x
            return get(tuple(full))
        return oshape, g
    arrs = {i: np.asarray(ids[i]) for i in adv}
    B = bshape([a.shape for a in arrs.values()])
    adjacent = adv == list(range(adv[0], adv[-1]+1))
    sl = [i for i,x in enumerate(ids) if isinstance(x,slice)]
    if adjacent:
        pre=[i for i in sl if i<adv[0]]; post=[i for i in sl if i>adv[-1]]
        oshape=[shape[i] for i in pre]+B+[shape[i] for i in post]
        def g(idx):
            idx=list(idx); p=idx[:len(pre)]; b=idx[len(pre):len(pre)+len(B)]; q=idx[len(pre)+len(B):]
            full=[None]*len(shape)
            for i,v in zip(pre,p): full[i]=v
            for i,v in zip(post,q): full[i]=v
            for i in adv: full[i]=int(np.broadcast_to(arrs[i],B)[tuple(b)])
            return get(tuple(full))
    else:
        oshape=B+[shape[i] for i in sl]
        def g(idx):
            idx=list(idx); b=idx[:len(B)]; q=idx[len(B):]
            full=[None]*len(shape)
            for i,v in zip(sl,q): full[i]=v
            for i in adv: full[i]=int(np.broadcast_to(arrs[i],B)[tuple(b)])
            return get(tuple(full))
    return oshape, g
bad=0; N=0
for trial in range(20000):
    nd = random.randint(1,4); shape=[random.randint(1,3) for _ in range(nd)]
    a = np.arange(int(np.prod(shape))).reshape(shape)
    kinds=[random.choice(["int","slice","list"]) for _ in range(nd)]
    ids=[]
    for k,n in zip(kinds,shape):
        if k=="int": ids.append(random.randrange(n))
        elif k=="slice": ids.append(slice(None))
        else: ids.append([random.randrange(n) for _ in range(random.randint(1,3))])
    # flodym's conversion: if >1 lists, slices->range lists, lists->ix_ mesh
    def convert(ids, always=False):
        ids=list(ids); nl=sum(isinstance(x,list) for x in ids)
        if nl>1 or (always and nl>0):
            for i,x in enumerate(ids):
                if isinstance(x,slice): ids[i]=list(range(shape[i]))
            ax=[i for i,x in enumerate(ids) if isinstance(x,list)]
            mesh=np.ix_(*[ids[i] for i in ax])
            for i,m in zip(ax,mesh): ids[i]=m
        return ids
    for always in (False, True):
        cid = convert(ids, always)
        try: ref = a[tuple(cid)]
        except Exception as e: ref = None
        try:
            osh, g = model_index(shape, lambda t: a[t], cid)
            mod = np.array([g(ix) for ix in itertools.product(*[range(s) for s in osh])]).reshape(osh) if osh else np.array(g(()))
        except Exception as e: mod=None
        N+=1
        if (ref is None) != (mod is None) or (ref is not None and (ref.shape!=mod.shape or not np.array_equal(ref,mod))):
            bad+=1
            if bad<5: print("MISMATCH", shape, cid, None if ref is None else ref.shape, None if mod is None else mod.shape)
        # label-order expectation: result axes = non-int axes in order, lists in requested order
        if ref is not None:
            keep=[i for i,x in enumerate(ids) if not isinstance(x,int)]
            expshape=[len(ids[i]) if isinstance(ids[i],list) else shape[i] for i in keep]
            if always and list(ref.shape)!=expshape: print("order wrong even with always", shape, ids)
print("cases", N, "mismatches model vs numpy", bad)
