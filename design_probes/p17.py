import numpy as np
from flodym import *
from flodym.lifetime_models import *
import logging; logging.disable(logging.CRITICAL)
def try_(label, f):
    try:
        r = f(); print(f"[{label}] OK ->", r)
    except Exception as e: print(f"[{label}] RAISES {type(e).__name__}: {str(e)[:200]}")
t = Dimension(name="time", letter="t", items=[2000,2001,2002], dtype=int)
t2 = Dimension(name="time", letter="t", items=[1990,1991,1992,1993], dtype=int)
r = Dimension(name="region", letter="r", items=["a","b"], dtype=str)
r2 = Dimension(name="region", letter="r", items=["b","a"], dtype=str)
dims = DimensionSet(dim_list=[t,r])
try_("stock with inflow other time items (len 4)", lambda: SimpleFlowDrivenStock(dims=dims, inflow=StockArray(dims=DimensionSet(dim_list=[t2,r]))).inflow.shape)
try_("stock with inflow r items reordered", lambda: SimpleFlowDrivenStock(dims=dims, inflow=StockArray(dims=DimensionSet(dim_list=[t,r2]))).inflow.dims["r"].items)
try_("stock with inflow dims order swapped", lambda: SimpleFlowDrivenStock(dims=dims, inflow=StockArray(dims=DimensionSet(dim_list=[r,t]))))
try_("stock time not first", lambda: SimpleFlowDrivenStock(dims=DimensionSet(dim_list=[r,t])))
try_("dsm with lifetime model other dims", lambda: InflowDrivenDSM(dims=dims, lifetime_model=FixedLifetime(dims=DimensionSet(dim_list=[t]), mean=2)))
try_("dsm with lifetime model other time items", lambda: InflowDrivenDSM(dims=dims, lifetime_model=FixedLifetime(dims=DimensionSet(dim_list=[t2,r]), mean=2)).lifetime_model.shape)
try_("lifetime model time not first", lambda: FixedLifetime(dims=DimensionSet(dim_list=[r,t]), mean=2).sf.shape)
try_("2 time items", lambda: FixedLifetime(dims=DimensionSet(dim_list=[Dimension(name="time", letter="t", items=[1,2])]), mean=2).sf)
try_("n_pts 11", lambda: FixedLifetime(dims=dims, mean=2, n_pts_per_interval=11).sf)
try_("n_pts 0", lambda: FixedLifetime(dims=dims, mean=2, n_pts_per_interval=0).sf.shape)
try_("inflow_at bad", lambda: FixedLifetime(dims=dims, mean=2, inflow_at="mid"))
try_("compute w/o prms", lambda: InflowDrivenDSM(dims=dims, lifetime_model=FixedLifetime).compute())
try_("solver bad", lambda: StockDrivenDSM(dims=dims, lifetime_model=FixedLifetime, solver="x"))
