import numpy as np
from flodym import *
def try_(label, f):
    try:
        r = f()
        print(f"[{label}] OK ->", r)
    except Exception as e:
        print(f"[{label}] RAISES {type(e).__name__}: {str(e)[:300]}")
t = Dimension(name="time", letter="t", items=[1,2,3], dtype=int)
r = Dimension(name="region", letter="r", items=["a","b"], dtype=str)
g = Dimension(name="good", letter="g", items=["x","y","z"], dtype=str)
gs = Dimension(name="goodsub", letter="h", items=["z","x"], dtype=str)
dims = DimensionSet(dim_list=[t,r,g])
v = np.arange(18.).reshape(3,2,3)
x = FlodymArray(dims=dims, values=v)
try_("int, slice, list (r len 2, sub len 2)", lambda: (x[{"t": 2, "g": gs}].dims.letters, x[{"t": 2, "g": gs}].values.tolist()))
print("expected by label [r][h]:", [[v[1, i, 2], v[1, i, 0]] for i in range(2)])
# non-equal lengths
gs3 = Dimension(name="goodsub", letter="h", items=["z","x","y"], dtype=str)
try_("int, slice, list (r len 2, sub len 3)", lambda: x[{"t": 2, "g": gs3}].values.tolist())
# list, slice, int
ts = Dimension(name="tsub", letter="u", items=[3,1], dtype=int)
try_("list, slice, int", lambda: (x[{"t": ts, "g": "y"}].dims.letters, x[{"t": ts, "g": "y"}].values.tolist()))
print("expected [u][r]:", [[v[2,i,1] for i in range(2)], [v[0,i,1] for i in range(2)]])
# int, list adjacent
try_("slice,int,list adjacent", lambda: (x[{"r": "b", "g": gs}].dims.letters, x[{"r": "b", "g": gs}].values.tolist()))
print("expected [t][h]:", [[v[k,1,2], v[k,1,0]] for k in range(3)])
# setitem int, slice, list
y = FlodymArray(dims=dims)
rhs = FlodymArray(dims=DimensionSet(dim_list=[r, gs]), values=np.array([[1.,2.],[3.,4.]]))
try_("setitem int,slice,list", lambda: y.__setitem__({"t": 2, "g": gs}, rhs))
print(y.values[1].tolist(), " expected [r][g]: [[2,0,1],[4,0,3]]")
# two lists + int
try_("list,list,int", lambda: x[{"t": ts, "r": Dimension(name="rsub", letter="q", items=["b"]), "g": "x"}].values.tolist())
try_("list,int,list", lambda: (x[{"t": ts, "r": "b", "g": gs}].values.tolist(), [[v[2,1,2], v[2,1,0]],[v[0,1,2], v[0,1,0]]]))
