import numpy as np, pandas as pd, tempfile, os, pickle
from flodym import *
from flodym.export import *
from flodym.lifetime_models import *
import logging; logging.disable(logging.CRITICAL)
def try_(label, f):
    try:
        r = f()
        print(f"[{label}] OK ->", r)
    except Exception as e:
        print(f"[{label}] RAISES {type(e).__name__}: {str(e)[:300]}")
t = Dimension(name="time", letter="t", items=[2000,2001,2002], dtype=int)
r = Dimension(name="region", letter="r", items=["a","b"], dtype=str)
dims = DimensionSet(dim_list=[t,r])
class M(MFASystem):
    def compute(self): pass
d = MFADefinition(dimensions=[DimensionDefinition(name="time", letter="t", dtype=int), DimensionDefinition(name="region", letter="r", dtype=str)],
    processes=["sysenv","use stage","waste"],
    flows=[FlowDefinition(from_process="sysenv", to_process="use stage", dim_letters=("t","r")),
           FlowDefinition(from_process="use stage", to_process="waste", dim_letters=("r","t")),
           FlowDefinition(from_process="waste", to_process="sysenv", dim_letters=("t",), name_override="out: a/b")],
    stocks=[StockDefinition(name="in use", process="use stage", dim_letters=("t","r"), subclass=InflowDrivenDSM, lifetime_model_class=FixedLifetime),
            StockDefinition(name="free", dim_letters=("t",), subclass=SimpleFlowDrivenStock)],
    parameters=[])
procs = make_processes(d.processes)
flows = make_empty_flows(procs, d.flows, dims)
stocks = make_empty_stocks(d.stocks, procs, dims)
m = M(dims=dims, parameters={}, processes=procs, flows=flows, stocks=stocks)
print({n:(f.dims.letters, f.from_process.id, f.to_process.id) for n,f in m.flows.items()})
print({n:(type(s).__name__, s.dims.letters, s.process) for n,s in m.stocks.items()})
rng = np.random.default_rng(0)
for f in m.flows.values(): f.values[...] = rng.integers(1,9,f.shape)
for s in m.stocks.values():
    for a in (s.stock, s.inflow, s.outflow): a.values[...] = rng.integers(1,9,a.shape)
dd = convert_to_dict(m); print(dd.keys()); print(dd["stock_processes"], dd["flow_processes"], dd["flow_dimensions"])
dp = convert_to_dict(m, "pandas")
for n,f in m.flows.items():
    back = FlodymArray.from_df(dims=f.dims, df=dp["flows"][n]); assert np.array_equal(back.values, f.values), n
tmp = tempfile.mkdtemp()
export_mfa_flows_to_csv(m, tmp); export_mfa_stocks_to_csv(m, tmp, with_in_and_out=True); print(sorted(os.listdir(tmp)))
for n,f in m.flows.items():
    from flodym.export.helper import to_valid_file_name
    df = pd.read_csv(os.path.join(tmp, to_valid_file_name(n)+".csv"))
    try_("reimport "+n, lambda: np.array_equal(FlodymArray.from_df(dims=f.dims, df=df).values, f.values))
export_mfa_to_pickle(m, os.path.join(tmp,"x.pkl")); pk = pickle.load(open(os.path.join(tmp,"x.pkl"),"rb")); print(pk.keys()==dd.keys())
print({k:v.shape for k,v in d.to_dfs().items()})
try_("to_dfs empty kinds", lambda: list(MFADefinition(dimensions=d.dimensions, processes=[], flows=[], stocks=[], parameters=[]).to_dfs().keys()))
# Sankey
from flodym.export import PlotlySankeyPlotter, PlotlyArrayPlotter, PyplotArrayPlotter
sp = PlotlySankeyPlotter(mfa=m, exclude_processes=[], slice_dict={"t":2001}, flow_color_dict={"default":"red", "sysenv => use stage": ("region", ["blue","green"])})
fig = sp.plot(); lk = fig.data[0].link; print(list(lk.source), list(lk.target), list(lk.value), list(lk.label)); print(list(fig.data[0].node.label))
sp = PlotlySankeyPlotter(mfa=m, flow_color_dict={"default":"red", "use stage => waste": ("region", ["blue","green"])})
fig = sp.plot(); lk = fig.data[0].link; print(list(lk.source), list(lk.target), list(lk.value), list(lk.label)); print(list(fig.data[0].node.label))
print("flow use->waste values (r,t):", m.flows["use stage => waste"].values.tolist())
# plot
import matplotlib; matplotlib.use("Agg")
x = m.flows["sysenv => use stage"]
p = PlotlyArrayPlotter(array=x, intra_line_dim="t", linecolor_dim="region"); fig = p.plot()
print([(tr.name, list(tr.x), list(tr.y)) for tr in fig.data]); print(x.values.tolist())
p = PyplotArrayPlotter(array=x, intra_line_dim="time", subplot_dim="r"); fig = p.plot()
print([(ax.get_title(), [ (list(l.get_xdata()), list(l.get_ydata())) for l in ax.lines]) for ax in fig.axes])
