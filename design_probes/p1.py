import numpy as np, logging, traceback
import flodym as fd
from flodym import *

def try_(label, f):
    try:
        r = f()
        print(f"[{label}] OK ->", r)
    except Exception as e:
        print(f"[{label}] RAISES {type(e).__name__}: {str(e)[:200]}")

t = Dimension(name="time", letter="t", items=[2000,2001,2002], dtype=int)
r = Dimension(name="region", letter="r", items=["a","b"], dtype=str)
dims = DimensionSet(dim_list=[t,r])

# --- C13: set_values with wrong shape leaves array corrupted?
x = FlodymArray(dims=dims, values=np.arange(6.).reshape(3,2))
try_("set_values wrong shape", lambda: x.set_values(np.zeros((2,3))))
print("  after: shape", x.values.shape, "dims.shape", x.dims.shape)
x = FlodymArray(dims=dims, values=np.arange(6.).reshape(3,2))
try_("x[...] = wrong shape", lambda: x.__setitem__(Ellipsis, np.zeros((2,3))))
print("  after: shape", x.values.shape)
x = FlodymArray(dims=dims, values=np.arange(6.).reshape(3,2))
try_("x[...] = broadcastable (2,)", lambda: x.__setitem__(Ellipsis, np.zeros((2,))))
print("  after: shape", x.values.shape)
x = FlodymArray(dims=dims, values=np.arange(6.).reshape(3,2))
try_("set_values(FlodymArray)", lambda: x.set_values(FlodymArray(dims=dims)))
print("  after: type", type(x.values))

# --- C14: get_subset() independence
ds = DimensionSet(dim_list=[t,r])
sub = ds.get_subset()
sub.append(Dimension(name="extra", letter="e", items=[1]), inplace=True)
print("C14 get_subset() receiver letters after in-place append on result:", ds.letters)
sub2 = ds.copy(); sub2.drop("t", inplace=True); print("copy independent:", ds.letters)

# --- C02
class M(MFASystem):
    def compute(self): pass
procs = make_processes(["sysenv","a","b"])
fdefs = [FlowDefinition(from_process="sysenv", to_process="a", dim_letters=("t","r")),
         FlowDefinition(from_process="a", to_process="b", dim_letters=("t",)),
         FlowDefinition(from_process="b", to_process="sysenv", dim_letters=("t","r"))]
flows = make_empty_flows(procs, fdefs, dims)
m = M(dims=dims, parameters={}, processes=procs, flows=flows, stocks={})
for f in m.flows.values(): f.values[...] = 1.0
m.flows["a => b"].values[...] = 2.0
try_("no stocks, default tol", lambda: m.check_mass_balance())
try_("no stocks, explicit tol", lambda: m.check_mass_balance(tolerance=1e-9))
m.flows["a => b"].values[1] = np.nan
try_("NaN balance explicit tol", lambda: m.check_mass_balance(tolerance=1e-9))
m.flows["a => b"].values[1] = 2.0
# process without any flow
procs2 = make_processes(["sysenv","a","b","lonely"])
flows2 = make_empty_flows(procs2, fdefs, dims)
m2 = M(dims=dims, parameters={}, processes=procs2, flows=flows2, stocks={})
try_("process without flow", lambda: m2.check_mass_balance(tolerance=1e-9))
try_("check_flows no stocks", lambda: m.check_flows(raise_error=True))
