import numpy as np, pandas as pd, io
from flodym import *

def try_(label, f):
    try:
        r = f()
        print(f"[{label}] OK ->", r)
    except Exception as e:
        print(f"[{label}] RAISES {type(e).__name__}: {str(e)[:300]}")

# C11 int16 overflow
n = 40000
d = Dimension(name="big", letter="b", items=list(range(n)), dtype=int)
dims = DimensionSet(dim_list=[d])
x = FlodymArray(dims=dims, values=np.arange(n, dtype=float))
df = x.to_df()
try:
    y = FlodymArray.from_df(dims=dims, df=df)
    bad = np.nonzero(y.values != x.values)[0]
    print("C11 big dim: mismatches", len(bad), "first", bad[:3], y.values[bad[:3]])
except Exception as e:
    print("C11 big dim raises", type(e).__name__, str(e)[:200])

# C05 list-key with FlodymArray rhs
t = Dimension(name="time", letter="t", items=[1,2,3], dtype=int)
r = Dimension(name="region", letter="r", items=["a","b"], dtype=str)
dims = DimensionSet(dim_list=[t,r])
x = FlodymArray(dims=dims)
y = FlodymArray(dims=dims, values=np.array([[1.,2],[3,4],[5,6]]))
try_("list key rhs FlodymArray", lambda: x.__setitem__({"r": ["b","a"]}, y))
print(x.values)
x = FlodymArray(dims=dims)
try_("list key 1 item rhs FlodymArray", lambda: x.__setitem__({"r": ["b"]}, y))
print(x.values)
# subset dimension key
rs = Dimension(name="rsub", letter="s", items=["b","a"], dtype=str)
print("getitem subset reorder:", y[{"r": rs}].values, y[{"r": rs}].dims.letters)
x = FlodymArray(dims=dims)
ys = FlodymArray(dims=DimensionSet(dim_list=[t, rs]), values=np.array([[1.,2],[3,4],[5,6]]))
x[{"r": rs}] = ys
print("setitem subset reorder:", x.values)
# rhs missing dimension
x = FlodymArray(dims=dims)
try_("rhs lacks dim", lambda: x.__setitem__(Ellipsis, FlodymArray(dims=DimensionSet(dim_list=[t]), values=np.array([1.,2,3]))))
# rhs with surplus
u = Dimension(name="uu", letter="u", items=["p","q"], dtype=str)
big = FlodymArray(dims=DimensionSet(dim_list=[u, r, t]), values=np.arange(12.).reshape(2,2,3))
x[...] = big
print("surplus sum, permuted:", x.values)
# ndarray key assignment broadcasting
x = FlodymArray(dims=dims)
try_("x[{'t':1}] = ndarray wrong shape (1,) broadcast", lambda: x.__setitem__({"t":1}, np.array([7.])))
print(x.values)
# C01 reflected
print("2-x:", (2 - y).values.tolist(), " 2/x:", (2 / y).values.tolist())
s0 = FlodymArray.scalar(3.0)
print("scalar*y dims", (s0*y).dims.letters, (y*s0).dims.letters, (y+s0).dims.letters, (y+s0).values)
try_("pow", lambda: (y ** FlodymArray(dims=DimensionSet(dim_list=[r]), values=np.array([1.,2.]))).values.tolist())
try_("pow bad", lambda: (y ** big))
try_("2**y rpow", lambda: 2 ** y)
# C07 cumsum by name
try_("cumsum by name", lambda: y.cumsum("time").values.tolist())
try_("cumsum by letter", lambda: y.cumsum("r").values.tolist())
try_("sum_over by name", lambda: y.sum_over(("time",)).values.tolist())
try_("sum_over Dimension", lambda: y.sum_over((t,)).values.tolist())
try_("sum_to unknown Dimension obj", lambda: y.sum_to((u,)).values.tolist())
try_("get_shares_over name", lambda: y.get_shares_over(("time",)).values.tolist())
try_("cast_to lacking", lambda: y.cast_to(DimensionSet(dim_list=[t,u])))
# C06
try_("tuple key", lambda: y[1, "a"].values)
try_("tuple key 2 of same dim", lambda: y["a", "b"])
try_("slice key", lambda: y[0:1])
try_("unknown", lambda: y["zz"])
try_("dict by name", lambda: y[{"time": 2}].values)
try_("items_where", lambda: y.items_where(lambda v: v > 4).tolist())
try_("0-d items_where", lambda: s0.items_where(lambda v: v > 4).tolist())
try_("getitem dim not subset", lambda: y[{"r": Dimension(name="rsub", letter="s", items=["b","zz"])}])
try_("getitem dim same letter", lambda: y[{"r": Dimension(name="rsub", letter="r", items=["b"])}])
