import numpy as np, sys
from flodym import *
from flodym.lifetime_models import *
import flodym.stocks as S
import logging; logging.disable(logging.CRITICAL)
PATCH = len(sys.argv)>1
if PATCH:
    def _compute_outflow(self):
        inflow_pp = self._to_whole_period(self.inflow.values)
        obc_pp = np.einsum("c...,tc...->tc...", inflow_pp, self.lifetime_model.pdf)
        self._outflow_by_cohort = np.einsum("tc...,t->tc...", obc_pp, 1.0/self._t.interval_lengths)
        self.outflow.values[...] = self._outflow_by_cohort.sum(axis=1)
    S.DynamicStockModel._compute_outflow = _compute_outflow
    def get_stock_balance(self):
        dsdt = np.diff(self.stock.values, axis=0, prepend=0)
        return self._to_whole_period(self.inflow.values - self.outflow.values) - dsdt
    S.Stock.get_stock_balance = get_stock_balance
    def _cci(self):
        if self.solver=="manual": self._compute_inflow_manual()
        else: self._compute_inflow_lapack()
        self._stock_by_cohort = np.einsum("c...,tc...->tc...", self._to_whole_period(self.inflow.values), self.lifetime_model.sf)
    S.StockDrivenDSM._compute_cohorts_and_inflow = _cci
rng = np.random.default_rng(11)
r = Dimension(name="region", letter="r", items=["a","b"], dtype=str)
g = Dimension(name="good", letter="g", items=["x","y","z"], dtype=str)
kinds = [(FixedLifetime, lambda: dict(mean=float(rng.uniform(1.2,5)))), (NormalLifetime, lambda: dict(mean=float(rng.uniform(3,6)), std=float(rng.uniform(.5,1.5)))),
         (FoldedNormalLifetime, lambda: dict(mean=float(rng.uniform(3,6)), std=float(rng.uniform(.5,1.5)))), (LogNormalLifetime, lambda: dict(mean=float(rng.uniform(3,6)), std=float(rng.uniform(.5,2)))),
         (WeibullLifetime, lambda: dict(weibull_shape=float(rng.uniform(1,3)), weibull_scale=float(rng.uniform(3,8))))]
stats = {}
def note(k, grid, v): stats.setdefault((k,grid), 0.0); stats[(k,grid)] = max(stats[(k,grid)], float(v))
for trial in range(240):
    n = int(rng.integers(3,8)); gridk = ["unit","const","uneven"][trial%3]
    items = {"unit": 2000+np.arange(n), "const": 2000+3*np.arange(n), "uneven": 2000+np.cumsum(rng.integers(1,6,n))}[gridk]
    tt = Dimension(name="time", letter="t", items=[int(i) for i in items], dtype=int)
    extra = [[],[r],[g,r]][(trial//3)%3]; dims = DimensionSet(dim_list=[tt]+extra)
    cls, mk = kinds[trial%5]; prm = mk()
    def fresh(C, **kw): return C(dims=dims, lifetime_model=cls(dims=dims, **prm), **kw)
    a = fresh(InflowDrivenDSM); a.inflow.values[...] = rng.integers(0,9,dims.shape); a.compute()
    dt = a._t.interval_lengths; dtx = dt.reshape((n,)+(1,)*len(extra))
    def resid(s): return np.max(np.abs(np.diff(s.stock.values,axis=0,prepend=0) - dtx*(s.inflow.values-s.outflow.values)))
    note("C03 inflow-driven", gridk, resid(a))
    note("C03 get_stock_balance", gridk, np.max(np.abs(a.get_stock_balance())))
    sbc, obc = a.get_stock_by_cohort(), a.get_outflow_by_cohort()
    note("C09 stock=sum", gridk, np.max(np.abs(sbc.sum(axis=1)-a.stock.values))); note("C09 outflow=sum", gridk, np.max(np.abs(obc.sum(axis=1)-a.outflow.values)))
    dtc = dt.reshape((1,n)+(1,)*len(extra)); dtt = dt.reshape((n,1)+(1,)*len(extra))
    tri = np.tril(np.ones((n,n))).reshape((n,n)+(1,)*len(extra))
    note("C09 conservation", gridk, np.max(np.abs((sbc + np.cumsum(obc*dtt,axis=0) - (a.inflow.values*dtx)[None,...])*tri)))
    sf_diag_min = min(a.lifetime_model.sf[i,i].min() for i in range(n))
    if sf_diag_min >= 0.05:
        for solver in ("manual","lapack"):
            b = fresh(StockDrivenDSM, solver=solver); b.stock.values[...] = a.stock.values; b.compute()
            note("C10 inflow "+solver, gridk, np.max(np.abs(b.inflow.values-a.inflow.values)))
            note("C10 outflow "+solver, gridk, np.max(np.abs(b.outflow.values-a.outflow.values)))
            note("C10 cohort "+solver, gridk, np.max(np.abs(b.get_stock_by_cohort()-sbc)))
            note("C03 stock-driven "+solver, gridk, resid(b))
    # causality / linearity / label independence of inflow-driven
    k = int(rng.integers(0,n)); a2 = fresh(InflowDrivenDSM); a2.inflow.values[...] = a.inflow.values; a2.inflow.values[k+1:] += 5; a2.compute()
    note("C16 causal", gridk, np.max(np.abs(a2.stock.values[:k+1]-a.stock.values[:k+1])) + np.max(np.abs(a2.outflow.values[:k+1]-a.outflow.values[:k+1])))
    # simple flow-driven
    s = SimpleFlowDrivenStock(dims=dims); s.inflow.values[...] = rng.integers(0,9,dims.shape); s.outflow.values[...] = rng.integers(0,5,dims.shape); s.compute()
    note("C03 simple", gridk, resid(s)); note("C03 simple get_stock_balance", gridk, np.max(np.abs(s.get_stock_balance())))
for k in sorted(stats): print(f"{k[0]:32s} {k[1]:7s} {stats[k]:.3g}")
