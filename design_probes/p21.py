import numpy as np, itertools, random, logging
from flodym import *
import flodym.mfa_system as MS
# planned fixes D11-D13 monkeypatched
def _gmb(self):
    contributions = {p: [] for p in self.processes.keys()}
    for flow in self.flows.values():
        contributions[flow.from_process.name].append(-flow); contributions[flow.to_process.name].append(flow)
    for stock in self.stocks.values():
        if stock.process is None: continue
        sc = stock.inflow - stock.outflow
        contributions[stock.process.name].append(-sc); contributions["sysenv"].append(sc)
    return {p: sum(parts) if parts else FlodymArray.scalar(0.0) for p, parts in contributions.items()}
MS.MFASystem._get_mass_balance = _gmb
def _afp(self):
    mf = max([np.max(np.abs(f.values)) for f in self.flows.values()], default=0.0); ms = max([np.max(np.abs(s.stock.values)) for s in self.stocks.values()], default=0.0)
    return np.finfo(np.float64).eps * max(mf, ms)
MS.MFASystem._absolute_float_precision = property(_afp)
def cmb(self, tolerance=None, raise_error=True):
    if tolerance is None: tolerance = 100*self._absolute_float_precision
    balances = self._get_mass_balance()
    max_errors = {p: np.max(np.abs(b.values)) for p,b in balances.items()}
    failed = {p:e for p,e in max_errors.items() if not e <= tolerance}
    if failed: self._error_or_warning("Mass balance check failed for the following processes: " + ", ".join(f"{p} (max error: {e})" for p,e in failed.items()), raise_error)
MS.MFASystem.check_mass_balance = cmb
rnd = random.Random(7); rng = np.random.default_rng(7)
class M(MFASystem):
    def compute(self): pass
D = {"t": Dimension(name="time", letter="t", items=[2000,2001,2002], dtype=int), "r": Dimension(name="region", letter="r", items=["a","b"], dtype=str),
     "g": Dimension(name="good", letter="g", items=["x","y","z"], dtype=str), "e": Dimension(name="elem", letter="e", items=["Fe"], dtype=str)}
dims = DimensionSet(dim_list=list(D.values()))
class Cap(logging.Handler):
    def __init__(s): super().__init__(); s.recs=[]
    def emit(s, r): s.recs.append(r)
def lab(x):
    out={}
    for idx in itertools.product(*[range(d.len) for d in x.dims]): out[frozenset((d.letter,d.items[i]) for d,i in zip(x.dims,idx))]=float(x.values[idx])
    return out
def margin(L, keep):
    o={}
    for k,v in L.items():
        kk=frozenset(p for p in k if p[0] in keep); o[kk]=o.get(kk,0.0)+v
    return o
bad=[]; stats={"ok":0,"raise":0,"warn":0}
for trial in range(400):
    pn = ["sysenv"]+rnd.sample(["a","b","c","d"], rnd.randint(1,4)); procs = make_processes(pn)
    flows={}
    for k in range(rnd.randint(0,6)):
        a,b = rnd.choice(pn), rnd.choice(pn); letters=tuple(rnd.sample("trge", rnd.randint(0,3)))
        f = Flow(from_process=procs[a], to_process=procs[b], name=f"f{k}", dims=dims.get_subset(letters)); f.values[...] = rng.integers(0,9,f.shape); flows[f.name]=f
    stocks={}
    for k in range(rnd.randint(0,2)):
        letters=("t",)+tuple(rnd.sample("rge", rnd.randint(0,2)))
        s = SimpleFlowDrivenStock(dims=dims.get_subset(letters), name=f"s{k}", process=rnd.choice([None]+[procs[p] for p in pn[1:]]))
        for a in (s.stock,s.inflow,s.outflow): a.values[...] = rng.integers(0,9,a.shape)
        stocks[s.name]=s
    m = M(dims=dims, parameters={}, processes=procs, flows=flows, stocks=stocks)
    if trial%5==0 and flows:
        f = rnd.choice(list(flows.values())); f.values.flat[0] = np.nan
    # reference balance per process
    exp_fail=set()
    tol = rnd.choice([None, 0.5, 3.0])
    mx = max([np.nanmax(np.abs(f.values)) if not np.all(np.isnan(f.values)) else 0 for f in flows.values()]+[0]); 
    for p in pn:
        contribs=[]
        for f in flows.values():
            if f.from_process.name==p: contribs.append((f,-1))
            if f.to_process.name==p: contribs.append((f,+1))
        for s in stocks.values():
            if s.process is None: continue
            sc = s.inflow - s.outflow
            if s.process.name==p: contribs.append((sc,-1))
            if p=="sysenv": contribs.append((sc,+1))
        if not contribs: continue
        common = set.intersection(*[set(c.dims.letters) for c,_ in contribs])
        tot={}
        for c,sg in contribs:
            for k,v in margin(lab(c), common).items(): tot[k]=tot.get(k,0.0)+sg*v
        vals=list(tot.values())
        t_eff = tol if tol is not None else 100*np.finfo(float).eps*max([np.max(np.abs(f.values)) for f in flows.values()]+[np.max(np.abs(s.stock.values)) for s in stocks.values()]+[0.0])
        if any(np.isnan(v) or abs(v)>t_eff for v in vals): exp_fail.add(p)
    for raise_error in (True, False):
        h=Cap(); lg=logging.getLogger(); lg.addHandler(h); old=lg.level; lg.setLevel(logging.WARNING)
        try:
            m.check_mass_balance(tolerance=tol, raise_error=raise_error); out="ok"
        except ValueError as e: out="raise"; msg=str(e)
        except Exception as e: out="CRASH:"+type(e).__name__
        finally: lg.removeHandler(h); lg.setLevel(old)
        if out=="ok" and h.recs: out="warn"; msg=h.recs[0].getMessage()
        expected = "ok" if not exp_fail else ("raise" if raise_error else "warn")
        if out!=expected: bad.append((trial, out, expected, exp_fail, tol))
        elif out in ("raise","warn"):
            named = {p for p in pn if f"{p} (max error" in msg}
            if named!=exp_fail: bad.append((trial,"names",named,exp_fail))
        stats[out]=stats.get(out,0)+1
print(stats, len(bad)); print(bad[:5])
print("----- details")
for b in bad[:20]:
    print(b)
