import numpy as np, itertools, collections
from flodym import *
import logging; logging.disable(logging.CRITICAL)
D = [Dimension(name="aa", letter="a", items=[1,2], dtype=int), Dimension(name="bb", letter="b", items=["x","y"], dtype=str),
     Dimension(name="cc", letter="c", items=["p","q","r"]), Dimension(name="dd", letter="d", items=["u","v"], dtype=str)]
sub_letter = {"a":"A","b":"B","c":"C","d":"E"}
def selectors(d, write):
    yield ("none", None)
    for it in d.items[:2]: yield ("item", it)
    for items in ([d.items[-1]], list(reversed(d.items)), d.items[:2][::-1]):
        yield ("sub", Dimension(name=d.name+"sub", letter=sub_letter[d.letter], items=list(items), dtype=d.dtype))
    if write:
        for items in ([d.items[-1]], list(reversed(d.items))): yield ("list", list(items))
cnt = collections.Counter(); examples = {}
for nd in (2,3,4):
    for perm in itertools.permutations(D, nd):
        if nd==4 and perm != tuple(D) and perm != tuple(D[::-1]): continue
        dims = DimensionSet(dim_list=list(perm)); x = FlodymArray(dims=dims, values=np.arange(dims.total_size, dtype=float).reshape(dims.shape))
        for write in (False, True):
            for sel in itertools.product(*[list(selectors(d, write)) for d in perm]):
                key = {d.letter: v for d,(k,v) in zip(perm, sel) if k!="none"}
                kinds = tuple(k for k,_ in sel)
                # expected region
                pos = []  # per dim: list of positions (requested order) or int
                for d,(k,v) in zip(perm, sel):
                    if k=="none": pos.append(list(range(d.len)))
                    elif k=="item": pos.append(d.items.index(v))
                    elif k=="sub": pos.append([d.items.index(i) for i in v.items])
                    else: pos.append([d.items.index(i) for i in v])
                kept = [p for p in pos if isinstance(p, list)]
                expshape = tuple(len(p) for p in kept)
                def full_index(idx):
                    it = iter(idx); return tuple(p[next(it)] if isinstance(p,list) else p for p in pos)
                if not write:
                    try:
                        z = x[key]; got = z.values
                        exp = np.array([x.values[full_index(idx)] for idx in itertools.product(*[range(n) for n in expshape])]).reshape(expshape)
                        ok = got.shape==exp.shape and np.array_equal(got, exp)
                        res = "ok" if ok else "WRONG"
                    except Exception as e: res = "raise:"+type(e).__name__
                    tag=("read",res)
                else:
                    t = x.copy(); rhs = np.arange(int(np.prod(expshape)), dtype=float).reshape(expshape)+1000
                    try:
                        t[key] = rhs
                        exp = x.values.copy()
                        for idx in itertools.product(*[range(n) for n in expshape]): exp[full_index(idx)] = rhs[idx]
                        res = "ok" if np.array_equal(t.values, exp) else "WRONG"
                    except Exception as e: res = "raise:"+type(e).__name__
                    tag=("write",res)
                cnt[tag]+=1
                if res!="ok":
                    # classify pattern: does it have int and list separated by a kept 'none'?
                    pat = "".join({"none":"s","item":"i","sub":"L","list":"L"}[k] for k in kinds)
                    examples.setdefault((tag,pat), (dims.letters, key if len(str(key))<200 else "..."))
print(cnt)
pats = collections.Counter((t,p) for (t,p) in examples)
for (t,p),ex in sorted(examples.items(), key=str)[:40]: print(t,p)
