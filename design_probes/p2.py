import numpy as np, logging, traceback
from flodym import *
from flodym.lifetime_models import *

def try_(label, f):
    try:
        r = f()
        print(f"[{label}] OK ->", r)
    except Exception as e:
        print(f"[{label}] RAISES {type(e).__name__}: {str(e)[:300]}")

def mk(items, cls=InflowDrivenDSM, lt=FixedLifetime, prm=dict(mean=2.5), **kw):
    t = Dimension(name="time", letter="t", items=items, dtype=int)
    dims = DimensionSet(dim_list=[t])
    ltm = lt(dims=dims, **prm)
    return cls(dims=dims, lifetime_model=ltm, **kw), dims

def balance(s):
    dt = s._t.interval_lengths
    ds = np.diff(s.stock.values, axis=0, prepend=0)
    return ds - dt * (s.inflow.values - s.outflow.values)

for items in ([2000,2001,2002,2003,2004,2005], [2000,2005,2010,2015,2020,2025], [2000,2001,2003,2007,2008,2012]):
    s, dims = mk(items, lt=NormalLifetime, prm=dict(mean=4., std=1.5))
    s.inflow.values[...] = np.array([1.,3.,2.,5.,1.,4.])
    s.compute()
    print(items, "dt", s._t.interval_lengths, "bounds", s._t.bounds)
    print("  C03 residual:", np.round(balance(s), 6))
    print("  get_stock_balance:", np.round(s.get_stock_balance(), 6))
    try_("  check_stock_balance", s.check_stock_balance)
    # cohort conservation (C09): inflow_c*dt_c = stock_by_cohort[t,c] + sum_{t'<=t} outflow_by_cohort[t',c]*dt_t'
    sc = s.get_stock_by_cohort(); oc = s.get_outflow_by_cohort(); dt = s._t.interval_lengths
    lhs = s.inflow.values * dt
    rhs = sc + np.cumsum(oc * dt[:, None], axis=0)
    tri = np.tril(np.ones((6,6)))
    print("  C09 cohort conservation residual max:", np.max(np.abs((rhs - lhs[None,:]) * tri)))
    print("  outflow == sum oc:", np.allclose(s.outflow.values, oc.sum(axis=1)), " stock==sum sc:", np.allclose(s.stock.values, sc.sum(axis=1)))
    # simple flow-driven
    t = dims["t"]
    sf = SimpleFlowDrivenStock(dims=dims)
    sf.inflow.values[...] = s.inflow.values; sf.outflow.values[...] = [0,1,1,2,0,1]
    sf.compute()
    print("  SimpleFlowDriven residual:", np.round(balance(sf), 9), " get_stock_balance:", sf.get_stock_balance())

# C17: caching
s, dims = mk([2000,2001,2002,2003,2004,2005], lt=FixedLifetime, prm=dict(mean=2.5))
s.inflow.values[...] = 1.0
s.compute(); a = s.stock.values.copy()
s.lifetime_model.set_prms(mean=FlodymArray(dims=dims, values=np.full(6, 0.5)))
s.compute(); b = s.stock.values.copy()
s2, _ = mk([2000,2001,2002,2003,2004,2005], lt=FixedLifetime, prm=dict(mean=0.5)); s2.inflow.values[...] = 1.0; s2.compute()
print("C17 after set_prms recompute:", b, " fresh:", s2.stock.values, " first:", a)
s.lifetime_model.set_prms(mean=1.5)
try_("set_prms scalar", lambda: s.lifetime_model.mean)
