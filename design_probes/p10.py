import numpy as np, pandas as pd, io
from flodym import *
import logging; logging.disable(logging.CRITICAL)
def try_(label, f):
    try:
        r = f()
        print(f"[{label}] OK ->", r)
    except Exception as e:
        print(f"[{label}] RAISES {type(e).__name__}: {str(e)[-200:]}")
t = Dimension(name="time", letter="t", items=[1990,2000,2010], dtype=int)
r = Dimension(name="region", letter="r", items=["EU","US"], dtype=str)
yu = Dimension(name="year2", letter="y", items=[5,6])
gu = Dimension(name="good", letter="g", items=["car","bus"])
def rt(dims, df): 
    x = FlodymArray.from_df(dims=dims, df=df); return x.values.tolist()
dims = DimensionSet(dim_list=[t,r]); x = FlodymArray(dims=dims, values=np.arange(6.).reshape(3,2)+0.5)
df = x.to_df(index=False)
try_("named, cols permuted (value first)", lambda: rt(dims, df[["value","region","time"]]))
df2 = df.rename(columns={"time":"c0","region":"c1"})
try_("items-only, original order", lambda: rt(dims, df2))
try_("items-only, dims swapped", lambda: rt(dims, df2[["c1","c0","value"]]))
try_("items-only, value first", lambda: rt(dims, df2[["value","c0","c1"]]))
try_("items-only, value middle", lambda: rt(dims, df2[["c0","value","c1"]]))
try_("other value col name", lambda: rt(dims, df.rename(columns={"value":"tons"})))
# untyped
dims = DimensionSet(dim_list=[yu,gu]); x = FlodymArray(dims=dims, values=np.arange(4.).reshape(2,2)+0.5)
try_("untyped long index", lambda: rt(dims, x.to_df()))
try_("untyped wide over int dim", lambda: rt(dims, x.to_df(dim_to_columns="year2")))
try_("untyped wide over str dim", lambda: rt(dims, x.to_df(dim_to_columns="good")))
try_("untyped csv long", lambda: rt(dims, pd.read_csv(io.StringIO(x.to_df().to_csv()))))
try_("untyped csv wide int", lambda: rt(dims, pd.read_csv(io.StringIO(x.to_df(dim_to_columns="year2").to_csv()))))
# typed int wide
dims = DimensionSet(dim_list=[t,r]); x = FlodymArray(dims=dims, values=np.arange(6.).reshape(3,2)+0.5)
try_("typed wide over time", lambda: rt(dims, x.to_df(dim_to_columns="time")))
try_("typed wide over time csv", lambda: rt(dims, pd.read_csv(io.StringIO(x.to_df(dim_to_columns="time").to_csv()))))
try_("typed wide over region, index=False", lambda: rt(dims, x.to_df(dim_to_columns="region", index=False)))
# sparse
x.values[1,1]=0
print(x.to_df(sparse=True).reset_index().values.tolist())
# single-item dim left out
s = Dimension(name="single", letter="s", items=["only"], dtype=str)
dims3 = DimensionSet(dim_list=[t,s,r]); x3 = FlodymArray(dims=dims3, values=np.arange(6.).reshape(3,1,2)+0.5)
try_("single-item dim left out", lambda: rt(dims3, x3.to_df(index=False).drop(columns=["single"])))
# time-like default index for 1-d
d1 = DimensionSet(dim_list=[t]); x1 = FlodymArray(dims=d1, values=np.array([1.5,2.5,3.5]))
try_("1d index", lambda: rt(d1, x1.to_df()))
try_("1d index unnamed (year heuristic)", lambda: rt(d1, x1.to_df().rename_axis(None)))
